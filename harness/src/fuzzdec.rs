//! Byte decoders for the coverage-guided (libFuzzer) tier: they build the same
//! case structures the proptest strategies produce, so a crashing input can be
//! turned into a replayable case and re-judged by the normal check.

use crate::bf::{Idiom, Node, StructProg, K_COUNTED, K_IFLIKE, K_WHILE, N_LEAF_KINDS};
use crate::props::c09::{MemCase, MemOp};
use crate::props::c12::ParseCase;
use crate::props::c15::{ExprCase, T};
use crate::props::c18::{Op, Start, SvCase};
use arbitrary::{Result, Unstructured};

fn node(u: &mut Unstructured, depth: u32) -> Result<Node> {
    let k = u.int_in_range(0u8..=(N_LEAF_KINDS + 3))?;
    if k == N_LEAF_KINDS + 3 {
        let n = u.int_in_range(1usize..=5)?;
        let mut t = vec![];
        for _ in 0..n {
            t.push(u.int_in_range(0u8..=5)?)
        }
        return Ok(Node::Raw(t));
    }
    let mut sel = [0u8; 4];
    for s in sel.iter_mut() {
        *s = u.arbitrary()?
    }
    let (kk, m, flag) = (u.int_in_range(0u8..=11)?, u.int_in_range(0u8..=11)?, u.arbitrary()?);
    if k >= N_LEAF_KINDS && depth > 0 {
        let kind = [K_COUNTED, K_IFLIKE, K_WHILE][(k - N_LEAF_KINDS) as usize];
        let n = u.int_in_range(1usize..=3)?;
        let mut body = vec![];
        for _ in 0..n {
            body.push(node(u, depth - 1)?)
        }
        Ok(Node::Idiom(Idiom { kind, sel, k: kk, m, flag, body }))
    } else {
        Ok(Node::Idiom(Idiom { kind: k % N_LEAF_KINDS, sel, k: kk, m, flag, body: vec![] }))
    }
}

pub fn struct_prog(u: &mut Unstructured) -> Result<StructProg> {
    let n = u.int_in_range(4u8..=10)?;
    let mut init = vec![];
    for _ in 0..10 {
        init.push((u.int_in_range(0u8..=2)?, u.int_in_range(0u8..=6)?))
    }
    let cnt = u.int_in_range(1usize..=10)?;
    let mut body = vec![];
    for _ in 0..cnt {
        body.push(node(u, 2)?)
    }
    Ok(StructProg { n, init, body, print_all: u.ratio(9u8, 10u8)? })
}

#[derive(Debug, Clone, serde::Serialize, serde::Deserialize)]
pub struct FuzzProg {
    pub program: String,
    pub input: Vec<u8>,
    pub bits: u32,
}

/// (program, input, width): a structured program most of the time, raw tokens otherwise.
pub fn prog(u: &mut Unstructured) -> Result<FuzzProg> {
    let bits = [8u32, 8, 16, 32, 64][u.int_in_range(0usize..=4)?];
    let ilen = u.int_in_range(0usize..=8)?;
    let mut input = vec![];
    for _ in 0..ilen {
        input.push(if u.ratio(2u8, 3u8)? { u.int_in_range(0u8..=3)? } else { u.arbitrary()? })
    }
    let program = if u.ratio(4u8, 5u8)? {
        struct_prog(u)?.render()
    } else {
        let rest = u.bytes(u.len().min(96))?;
        crate::bf::render_raw(rest)
    };
    Ok(FuzzProg { program, input, bits })
}

/// Decoder of the JIT target: half of the inputs become `wide` programs (many simultaneously
/// live values, so that temporaries spill to the stack), the rest as in `prog`.
pub fn prog_jit(u: &mut Unstructured) -> Result<FuzzProg> {
    if u.ratio(1u8, 2u8)? {
        return prog(u);
    }
    let bits = [8u32, 16, 32, 64][u.int_in_range(0usize..=3)?];
    let ilen = u.int_in_range(0usize..=6)?;
    let mut input = vec![];
    for _ in 0..ilen {
        input.push(u.int_in_range(0u8..=3)?)
    }
    let n = u.int_in_range(6u8..=27)?;
    let mut init = vec![];
    for _ in 0..20 {
        init.push((u.int_in_range(0u8..=9)?, u.int_in_range(0u8..=3)?))
    }
    let nupd = u.int_in_range(1usize..=20)?;
    let mut upd = vec![];
    for _ in 0..nupd {
        upd.push(crate::bf::Upd { a_off: u.int_in_range(0u8..=2)?, b_off: u.int_in_range(0u8..=3)?, f: u.int_in_range(0u8..=15)?, k: u.int_in_range(0u8..=2)?, clear: u.ratio(3u8, 4u8)? })
    }
    let big = if u.ratio(1u8, 6u8)? { Some((u.int_in_range(0u8..=19)?, u.int_in_range(0u8..=2)?, u.int_in_range(0u8..=5)?)) } else { None };
    let w = crate::bf::WideProg {
        n,
        init,
        cnt_in: u.arbitrary()?,
        cnt_k: u.int_in_range(0u8..=2)?,
        looped: u.ratio(9u8, 10u8)?,
        start: u.int_in_range(0u8..=19)?,
        upd,
        nupd_sel: u.arbitrary()?,
        out_in_loop: if u.ratio(1u8, 3u8)? { Some(u.int_in_range(0u8..=19)?) } else { None },
        big,
    };
    Ok(FuzzProg { program: w.render(), input, bits })
}

pub fn sv_case(u: &mut Unstructured) -> Result<SvCase> {
    let val = |u: &mut Unstructured| -> Result<i8> { u.int_in_range(0i8..=3) };
    let vals = |u: &mut Unstructured, max: usize| -> Result<Vec<i8>> {
        let n = u.int_in_range(0usize..=max)?;
        (0..n).map(|_| u.int_in_range(0i8..=3)).collect()
    };
    let start = match u.int_in_range(0u8..=5)? {
        0 => Start::New,
        1 => Start::Default,
        2 => Start::WithCapacity(u.int_in_range(0u8..=5)?),
        3 => Start::FromVec(vals(u, 4)?),
        4 => Start::With(val(u)?),
        _ => Start::WithAll(vals(u, 4)?),
    };
    let n = u.int_in_range(1u8..=2)?;
    let tracked = u.arbitrary()?;
    let cnt = u.int_in_range(1usize..=30)?;
    let mut ops = vec![];
    for _ in 0..cnt {
        ops.push(match u.int_in_range(0u8..=16)? {
            0 | 1 => Op::Push(val(u)?),
            2 => Op::Extend(vals(u, 4)?),
            3 => Op::Clear,
            4 => Op::Retain(val(u)?),
            5 => Op::RetainMut(val(u)?),
            6 => Op::Dedup,
            7 => Op::Sort,
            8 => Op::SortByRev,
            9 => Op::CloneCmp,
            10 => Op::ReplaceByClone,
            11 => Op::IterRef,
            12 => Op::IterMutAdd(val(u)?),
            13 => Op::IntoIter(u.int_in_range(0u8..=5)?),
            14 => Op::Index(u.arbitrary()?),
            15 => Op::IndexSet(u.arbitrary()?, val(u)?),
            _ => Op::CmpWith(vals(u, 3)?),
        });
    }
    Ok(SvCase { n, tracked, start, ops })
}

pub fn mem_case(u: &mut Unstructured) -> Result<MemCase> {
    let off = |u: &mut Unstructured| -> Result<i64> {
        Ok(match u.int_in_range(0u8..=5)? {
            0 | 1 => u.int_in_range(-4i64..=4)?,
            2 => u.int_in_range(-200i64..=200)?,
            3 => u.int_in_range(-20_000i64..=20_000)?,
            4 => u.int_in_range(-3000i64..=3000)?,
            _ => u.int_in_range(-32i64..=32)?,
        })
    };
    let bits = [8u32, 16, 32, 64][u.int_in_range(0usize..=3)?];
    let cnt = u.int_in_range(1usize..=60)?;
    let mut ops = vec![];
    for _ in 0..cnt {
        ops.push(match u.int_in_range(0u8..=10)? {
            0 | 1 => MemOp::Mov(off(u)?),
            2 | 3 => MemOp::Read(off(u)?),
            4 | 5 | 6 => MemOp::Write(off(u)?, u.arbitrary()?),
            7 => MemOp::MakeAccessible(off(u)?, u.int_in_range(0u32..=3000)?),
            8 => MemOp::Check(off(u)?),
            9 => MemOp::PtrMove(u.int_in_range(-40i64..=40)?),
            _ => MemOp::CheckPtr(off(u)?),
        });
    }
    Ok(MemCase { bits, placement: 0, ops })
}

fn tree(u: &mut Unstructured, depth: u32) -> Result<T> {
    let k = if depth == 0 { u.int_in_range(0u8..=1)? } else { u.int_in_range(0u8..=5)? };
    Ok(match k {
        0 => T::Val(match u.int_in_range(0u8..=9)? {
            0 => 0,
            1 => 1,
            2 => 2,
            3 => u64::MAX,
            4 => 1 << 7,
            5 => 1 << 15,
            6 => 1 << 31,
            7 => 1 << 63,
            8 => 129,
            _ => u.arbitrary()?,
        }),
        1 => T::Var(u.int_in_range(-3i8..=3)?),
        2 => T::Add(Box::new(tree(u, depth - 1)?), Box::new(tree(u, depth - 1)?)),
        3 => T::Mul(Box::new(tree(u, depth - 1)?), Box::new(tree(u, depth - 1)?)),
        4 => T::Neg(Box::new(tree(u, depth - 1)?)),
        _ => T::Norm(Box::new(tree(u, depth - 1)?)),
    })
}

pub fn expr_case(u: &mut Unstructured) -> Result<ExprCase> {
    let bits = [8u32, 16, 32, 64][u.int_in_range(0usize..=3)?];
    let t = tree(u, 4)?;
    let mut env = [0u64; 7];
    for e in env.iter_mut() {
        *e = if u.ratio(1u8, 2u8)? { u.int_in_range(0u64..=3)? } else { u.arbitrary()? }
    }
    let mut subst = vec![];
    for _ in 0..7 {
        subst.push(tree(u, 2)?)
    }
    Ok(ExprCase { bits, tree: t, env, subst })
}

pub fn parse_case(u: &mut Unstructured) -> Result<ParseCase> {
    let level = u.int_in_range(0u32..=3)?;
    let rest = u.bytes(u.len().min(120))?;
    // lossy: invalid sequences become U+FFFD, which is just another comment character
    let source = String::from_utf8_lossy(rest).to_string();
    Ok(ParseCase { source, input: vec![1, 2, 3], level })
}
