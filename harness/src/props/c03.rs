//! C03 - baseline JIT machine code behaves like the source program.
use crate::bf::Mix;
use crate::child::{End, Obs};
use crate::engine::{Fail, Outcome, Stats, Tier};
use crate::exec::{Backend, RunCfg, PROBE_BC};
use crate::judge;
use crate::progs::{ProgCase, ProgProperty, Sel};
use crate::props::c02::record_bc_notes;
use crate::refmodel::{ev_string, Fate, RefRun};

pub struct C03;

impl ProgProperty for C03 {
    fn id(&self) -> &'static str {
        "C03"
    }
    fn rule(&self) -> String {
        "generated programs (wide SCC 40%, structured 30%, bigconst 12%, raw 10%, roaming 5%, deep 3%) x input x width, run by BaseJitCompiler::execute at levels 0..3, compared event-for-event with the reference. For bigconst and shl programs (an input byte multiplied up to a * 2^k, then a zero test) whose canonical run is too long to finish, the JIT is compared with the IR and bytecode interpreters at the same level and blamed only if it is the odd one out (IR = BC != JIT). Non-trivial: the bytecode the JIT compiles (hook) uses stack temporaries (temps >= 12), or keeps a register temporary live across a runtime-calling instruction, or has an immediate outside i32; distinct = distinct (program, input, width). coverage.sets['jit-forms'] lists the instruction-selector arms (opcode x dst kind x src kinds) reached A third of the halting programs at 16/32 bit and two thirds at 64 bit carry the upper-bits probe (family `...+probe`): an appended epilogue takes the canonical final value of every small-magnitude cell out again, counts the cells in which anything is left and prints the count (0 canonically), which makes the bits above the low byte observable.".into()
    }
    fn assumptions(&self) -> Vec<String> {
        vec!["secondary oracle (bigconst and shl programs with unknown canonical fate only): differential 2-of-3 vote, cannot detect a defect shared by all three back ends".into()]
    }
    fn cases(&self, tier: Tier) -> u64 {
        match tier {
            Tier::Quick => 40_000,
            Tier::Thorough => 600_000,
        }
    }
    fn mix(&self, tier: Tier) -> Mix {
        // the vote oracle costs a watchdog window whenever the interpreters do not finish
        Mix { raw: 10, strukt: 30, div: 0, wide: 40, big: if tier == Tier::Quick { 4 } else { 12 }, roam: 5, deep: 3, commented: 2, hibits: 8 }
    }
    fn admit(&self, r: &RefRun) -> Result<(), &'static str> {
        match r.fate {
            Fate::Halt | Fate::Unknown => Ok(()),
            Fate::Diverges => Err("canonical run diverges"),
        }
    }
    fn make_cfgs(&self, sel: &Sel, _p: &str, _i: &[u8], _b: u32, r: &RefRun) -> Vec<RunCfg> {
        let mut v = vec![];
        for l in 0u32..4 {
            let mut c = RunCfg::plain(Backend::Jit, l);
            c.probes = PROBE_BC;
            v.push(c);
        }
        if r.fate == Fate::Unknown {
            // vote oracle: one level in 1..3 (level 0 cannot fold the constants), three back ends
            let l = 1 + sel.a % 3;
            return vec![RunCfg::plain(Backend::Ir, l), RunCfg::plain(Backend::Bc, l), v[l as usize]];
        }
        v
    }
    fn custom_check(&self, c: &ProgCase, r: &RefRun, stats: &mut Stats) -> Option<Outcome> {
        if r.fate != Fate::Unknown {
            return None;
        }
        if c.family != "bigconst" && c.family != "shl" {
            return Some(Outcome::Skip("canonical run exceeds the step limit"));
        }
        // 2-of-3 vote, one child per level triple, short window
        let mut compared = 0;
        for tri in c.cfgs.chunks(3) {
            if tri.len() != 3 {
                continue;
            }
            let run = judge::run_child(&c.program, &c.input, c.bits, tri, r, std::time::Duration::from_millis(if judge::FAST_REJECT.load(std::sync::atomic::Ordering::Relaxed) { 120 } else { 500 }));
            let get = |j: usize| run.obs.iter().find(|o| o.cfg == j);
            let (ir, bc, jit) = (get(0), get(1), get(2));
            let done = |o: Option<&Obs>| o.map(|o| matches!(o.end, End::Returned(_))).unwrap_or(false);
            if !(done(ir) && done(bc)) {
                continue; // the interpreters did not finish: nothing to compare with
            }
            let (ir, bc) = (ir.unwrap(), bc.unwrap());
            if ir.events != bc.events {
                stats.class("vote:ir!=bc (left to C01/C02)");
                continue;
            }
            match jit {
                Some(j) if matches!(j.end, End::Returned(_)) => {
                    compared += 1;
                    if j.events != ir.events {
                        let i = j.events.iter().zip(ir.events.iter()).position(|(a, b)| a != b).unwrap_or(j.events.len().min(ir.events.len()));
                        return Some(Outcome::Fail(Fail {
                            kind: "vote-mismatch".into(),
                            detail: format!("[{}] JIT differs from IR interpreter and bytecode interpreter (which agree) at event {i}: jit {} vs {}", tri[2].describe(c.bits), ev_string(&j.events[i.saturating_sub(3)..(i + 3).min(j.events.len())]), ev_string(&ir.events[i.saturating_sub(3)..(i + 3).min(ir.events.len())])),
                            cfg: Some(2),
                        }));
                    }
                    record_bc_notes(&[Some(j.clone())], stats, "jit-forms");
                }
                Some(j) => {
                    if matches!(j.end, End::Cut) && matches!(run.exit, crate::child::Exit::Timeout) && !judge::FAST_REJECT.load(std::sync::atomic::Ordering::Relaxed) {
                        // Both interpreters finished inside the short window and agree; the JIT runs the same
                        // optimised IR and is still going. Alone, with 20 s (40x what the interpreters needed):
                        let alone = judge::run_child(&c.program, &c.input, c.bits, &tri[2..3], r, std::time::Duration::from_secs(20));
                        let jo = alone.obs.iter().find(|o| o.cfg == 0);
                        match jo {
                            Some(o) if matches!(o.end, End::Returned(_)) => {
                                if o.events != ir.events {
                                    return Some(Outcome::Fail(Fail { kind: "vote-mismatch".into(), detail: format!("[{}] JIT (run alone) differs from IR interpreter and bytecode interpreter, which agree: {} vs {} events", tri[2].describe(c.bits), o.events.len(), ir.events.len()), cfg: Some(2) }));
                                }
                            }
                            Some(o) if matches!(o.end, End::Cut) && matches!(alone.exit, crate::child::Exit::Timeout) => {
                                return Some(Outcome::Fail(Fail { kind: "vote-hang".into(), detail: format!("[{}] JIT still running after 20 s alone ({} events logged) where the IR interpreter and the bytecode interpreter both finished within the {} ms vote window with {} events", tri[2].describe(c.bits), o.events.len(), 500, ir.events.len()), cfg: Some(2) }));
                            }
                            _ => {}
                        }
                    }
                    if let End::Panicked(m) = &j.end {
                        return Some(Outcome::Fail(Fail { kind: "panic".into(), detail: format!("[{}] {m}", tri[2].describe(c.bits)), cfg: None }));
                    }
                    if let crate::child::Exit::Signal(s) = run.exit {
                        return Some(Outcome::Fail(Fail { kind: format!("crash:{}", crate::child::signal_name(s)), detail: format!("[{}] JIT crashed where both interpreters finished", tri[2].describe(c.bits)), cfg: Some(2) }));
                    }
                }
                None => {}
            }
        }
        if compared == 0 {
            return Some(Outcome::Skip("bigconst: interpreters did not finish in the vote window"));
        }
        stats.class("vote-oracle-cases");
        stats.class(if c.family == "shl" { "family:shl(vote)" } else { "family:bigconst" });
        Some(Outcome::Pass { nontrivial: true })
    }
    fn nontrivial(&self, _c: &ProgCase, _r: &RefRun, obs: &[Option<Obs>], stats: &mut Stats) -> bool {
        let (temps, lac, _, _) = record_bc_notes(obs, stats, "jit-forms");
        let mut imm64 = false;
        for o in obs.iter().flatten() {
            if o.note("forms").map(|f| f.contains("i64")).unwrap_or(false) {
                imm64 = true
            }
        }
        if temps >= 12 {
            stats.class("stack-temporaries(temps>=12)")
        }
        if lac > 0 {
            stats.class("register-temp-live-across-runtime-call")
        }
        if imm64 {
            stats.class("immediate-outside-i32")
        }
        temps >= 12 || lac > 0 || imm64
    }
    fn probe_upper_bits(&self) -> bool {
        true
    }
    fn fuzz_target(&self) -> Option<&'static str> {
        Some("prog_jit")
    }
    fn floors(&self, tier: Tier) -> Vec<(&'static str, u64)> {
        let q = if tier == Tier::Quick { 1 } else { 20 };
        vec![("nontrivial", 3000 * q), ("stack-temporaries(temps>=12)", 600 * q), ("family:shl(vote)", 150 * q), ("jit-forms", if tier == Tier::Quick { 60 } else { 70 })]
    }
}
