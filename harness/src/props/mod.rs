//! One module per property.
pub mod c01;
pub mod c04;
