//! C14 - cell arithmetic helpers meet their algebraic contracts at every width.
use crate::engine::{Fail, Outcome, Property, Stats, Tier};
use crate::with_cell;
use hpbf::CellType;
use proptest::prelude::*;
use serde::{Deserialize, Serialize};

#[derive(Serialize, Deserialize, Clone, Debug)]
pub struct ArithCase {
    pub bits: u32,
    pub n: u64,
    pub d: u64,
    pub e: u64,
}

/// All contracts for one (n, d, e) triple at cell type C. The operands are
/// truncated to the cell width first: the domain is `C`, not `u64`.
pub fn check_one<C: CellType>(n64: u64, d64: u64, e64: u64) -> Result<(bool, &'static str), String> {
    check_with::<C>(n64, d64, e64, 1500)
}

/// `pow_reps` bounds the exponent up to which power is compared with literal repeated multiplication.
pub fn check_with<C: CellType>(n64: u64, d64: u64, e64: u64, pow_reps: u64) -> Result<(bool, &'static str), String> {
    let (n, d, e) = (C::from_u64(n64), C::from_u64(d64), C::from_u64(e64));
    let w = C::BITS;
    let mask: u64 = if w == 64 { u64::MAX } else { (1u64 << w) - 1 };
    let tz = |x: C| if x == C::ZERO { w } else { x.trailing_zeros() };
    // --- division: smallest x with x*d == n, none exactly when no x exists
    let solvable = n == C::ZERO || tz(d) <= tz(n);
    match n.wrapping_div(d) {
        Some(x) => {
            if !solvable {
                return Err(format!("div({n:?}, {d:?}) = Some({x:?}) but no x with x*d = n exists"));
            }
            if x.wrapping_mul(d) != n {
                return Err(format!("div({n:?}, {d:?}) = {x:?} does not multiply back ({:?})", x.wrapping_mul(d)));
            }
            // solutions differ by multiples of 2^(w - tz(d)); the smallest lies below that
            let s = tz(d);
            if s > 0 {
                let bound_bits = w - s.min(w);
                if bound_bits < 64 && x.into_u64() >> bound_bits != 0 {
                    return Err(format!("div({n:?}, {d:?}) = {x:?} is not the smallest solution (must be below 2^{bound_bits})"));
                }
            }
        }
        None => {
            if solvable {
                return Err(format!("div({n:?}, {d:?}) = None although a solution exists"));
            }
        }
    }
    // --- inverse: exists exactly for odd values
    match d.wrapping_inv() {
        Some(i) => {
            if !d.is_odd() || i.wrapping_mul(d) != C::ONE {
                return Err(format!("inv({d:?}) = {i:?}"));
            }
        }
        None => {
            if d.is_odd() {
                return Err(format!("inv({d:?}) = None for an odd value"));
            }
        }
    }
    if d.is_odd() != (d.into_u64() & 1 == 1) {
        return Err(format!("is_odd({d:?})"));
    }
    // --- power: equals repeated multiplication (small exponents) and is a homomorphism
    let small = e64 % pow_reps;
    let small_c = C::from_u64(small);
    let mut acc = C::ONE;
    for _ in 0..small_c.into_u64() {
        acc = acc.wrapping_mul(n);
    }
    if n.wrapping_pow(small_c) != acc {
        return Err(format!("pow({n:?}, {small_c:?}) = {:?}, repeated multiplication gives {acc:?}", n.wrapping_pow(small_c)));
    }
    let e2 = C::from_u64(e64 >> 5);
    if let Some(sum) = e.into_u64().checked_add(e2.into_u64()) {
        if sum <= mask {
            let lhs = n.wrapping_pow(e).wrapping_mul(n.wrapping_pow(e2));
            let rhs = n.wrapping_pow(C::from_u64(sum));
            if lhs != rhs {
                return Err(format!("pow({n:?}, {e:?}) * pow({n:?}, {e2:?}) != pow({n:?}, {sum})"));
            }
        }
    }
    // (n*d)^e == n^e * d^e
    if n.wrapping_mul(d).wrapping_pow(e) != n.wrapping_pow(e).wrapping_mul(d.wrapping_pow(e)) {
        return Err(format!("pow({n:?}*{d:?}, {e:?}) is not multiplicative"));
    }
    // --- conversions
    if n.into_u64() != n64 & mask {
        return Err(format!("from_u64({n64:#x}).into_u64() = {:#x}", n.into_u64()));
    }
    if C::from_u64(n.into_u64()) != n {
        return Err("from_u64(into_u64(x)) != x".into());
    }
    let sx = n.into_i64();
    let expect_sx = if w == 64 { n64 as i64 } else { (((n64 & mask) << (64 - w)) as i64) >> (64 - w) };
    if sx != expect_sx {
        return Err(format!("into_i64({n:?}) = {sx}, sign extension at {w} bits gives {expect_sx}"));
    }
    if C::from_u64(sx as u64) != n {
        return Err("from_u64(into_i64(x) as u64) != x".into());
    }
    let b = n64 as u8;
    if C::from_u8(b).into_u64() != b as u64 || C::from_u8(b).into_u8() != b || n.into_u8() != (n64 & mask) as u8 {
        return Err(format!("from_u8/into_u8 round trip for {b}"));
    }
    let i16v = d64 as i16;
    let from = C::from_i16(i16v);
    if from.into_u64() != (i16v as i64 as u64) & mask {
        return Err(format!("from_i16({i16v}) = {from:?}"));
    }
    match n.try_into_i16() {
        Some(v) => {
            if v as i64 != expect_sx {
                return Err(format!("try_into_i16({n:?}) = {v}"));
            }
        }
        None => {
            if (i16::MIN as i64..=i16::MAX as i64).contains(&expect_sx) {
                return Err(format!("try_into_i16({n:?}) = None although {expect_sx} fits"));
            }
        }
    }
    if w >= 16 && C::from_i16(i16v).try_into_i16() != Some(i16v) {
        return Err(format!("try_into_i16(from_i16({i16v})) != Some"));
    }
    // --- shifts / negation / constants
    let by = (e64 % 80) as u32;
    let shl = if by >= w { 0 } else { (n.into_u64() << by) & mask };
    let shr = if by >= w { 0 } else { n.into_u64() >> by };
    if n.wrapping_shl(by).into_u64() != shl || n.wrapping_shr(by).into_u64() != shr {
        return Err(format!("shift of {n:?} by {by}"));
    }
    if n.wrapping_neg().wrapping_add(n) != C::ZERO || C::NEG_ONE.wrapping_add(C::ONE) != C::ZERO || n.wrapping_add(d).into_u64() != n.into_u64().wrapping_add(d.into_u64()) & mask || n.wrapping_mul(d).into_u64() != n.into_u64().wrapping_mul(d.into_u64()) & mask || n.bitand(d).into_u64() != n.into_u64() & d.into_u64() {
        return Err(format!("basic arithmetic on {n:?}, {d:?}"));
    }
    if tz(n) != (if n.into_u64() == 0 { w } else { n.into_u64().trailing_zeros() }) {
        return Err(format!("trailing_zeros({n:?})"));
    }
    // non-trivial: the masked division path, division by zero, or exponent >= width
    let class = if d == C::ZERO {
        "division-by-zero"
    } else if tz(d) >= 1 && n != C::ZERO && tz(n) >= tz(d) {
        "even-divisor-solvable(masked path)"
    } else if tz(d) >= 1 && n != C::ZERO {
        "even-divisor-unsolvable"
    } else if e.into_u64() >= w as u64 {
        "exponent>=width"
    } else {
        ""
    };
    Ok((!class.is_empty(), class))
}

pub struct C14;

fn vals() -> impl Strategy<Value = u64> {
    prop_oneof![3 => any::<u64>(), 2 => (0u32..64).prop_map(|s| 1u64 << s), 3 => (0u32..64, any::<u64>()).prop_map(|(s, x)| x << s), 2 => 0u64..300, 1 => (0u32..64).prop_map(|s| (1u64 << s).wrapping_sub(1)), 1 => (0u32..64, 0u64..4).prop_map(|(s, k)| (1u64 << s).wrapping_add(k).wrapping_sub(2))]
}

impl Property for C14 {
    type Gen = ArithCase;
    type Case = ArithCase;
    fn id(&self) -> &'static str {
        "C14"
    }
    fn rule(&self) -> String {
        "(n, d, e) triples at widths 8/16/32/64 from {uniform, powers of two, x*2^s, small, 2^s-1, 2^s+-k}, operands truncated to the cell type (the domain is C, not u64); the 8-bit (n, d) space is enumerated exhaustively (65536 pairs, every exponent for pow at 8 bit: 65536 (base, exponent) pairs) in both tiers, the 16-bit (n, d) space exhaustively in the thorough tier. Oracles are validity predicates independent of the implementation: div = Some(x) implies x*d = n and x < 2^(w - tz(d)) (which is minimality, solutions differ by multiples of that); div = None iff n != 0 and tz(d) > tz(n); inv = Some(i) iff d odd, and i*d = 1; pow equals e-fold multiplication for e < 1500, pow(b,e1)*pow(b,e2) = pow(b,e1+e2) when e1+e2 does not wrap, pow is multiplicative; from_u64/into_u64/into_i64 (sign extension at w bits)/from_u8/into_u8/from_i16/try_into_i16 round trips; shifts return 0 at or beyond the width. Non-trivial: even divisor (masked division path, solvable or not), division by zero, or exponent >= width; distinct = distinct (width, n, d, e)".into()
    }
    fn assumptions(&self) -> Vec<String> {
        vec!["pure safe arithmetic: runs in the shard process under catch_unwind, not in a forked child".into()]
    }
    fn cases(&self, tier: Tier) -> u64 {
        match tier {
            Tier::Quick => 8_000_000,
            Tier::Thorough => 100_000_000,
        }
    }
    fn strategy(&self, _tier: Tier) -> BoxedStrategy<ArithCase> {
        (crate::bf::width(), vals(), vals(), vals()).prop_map(|(bits, n, d, e)| ArithCase { bits, n, d, e }).boxed()
    }
    fn concretize(&self, g: &ArithCase) -> ArithCase {
        g.clone()
    }
    fn check(&self, c: &ArithCase, stats: &mut Stats) -> Outcome {
        let (n, d, e, bits) = (c.n, c.d, c.e, c.bits);
        match crate::exec::guarded(move || with_cell!(bits, C, check_one::<C>(n, d, e))) {
            Ok(Ok((nt, class))) => {
                if nt {
                    stats.class(class);
                }
                Outcome::Pass { nontrivial: nt }
            }
            Ok(Err(msg)) => Outcome::Fail(Fail { kind: "contract".into(), detail: format!("i{bits}: {msg}"), cfg: None }),
            Err(p) => Outcome::Fail(Fail { kind: "panic".into(), detail: format!("i{bits} n={n:#x} d={d:#x} e={e:#x}: {p}"), cfg: None }),
        }
    }
    fn fixed_work(&self, tier: Tier, shard: usize, shards: usize, stats: &mut Stats) -> Vec<(ArithCase, Fail)> {
        let mut out = vec![];
        // 8 bit: all (n, d) pairs and all (base, exponent) pairs, split over the shards by n
        let mut pairs = 0u64;
        for n in (shard as u64..256).step_by(shards) {
            for d in 0..256u64 {
                // e = d doubles as exponent: every (base n, exponent d) pair is covered
                pairs += 1;
                if let Err(msg) = check_one::<u8>(n, d, d) {
                    if out.len() < 3 {
                        out.push((ArithCase { bits: 8, n, d, e: d }, Fail { kind: "contract".into(), detail: format!("i8 (exhaustive): {msg}"), cfg: None }));
                    }
                }
            }
        }
        stats.add("exhaustive-8bit-pairs", pairs);
        if tier == Tier::Thorough {
            let mut pairs16 = 0u64;
            for n in (shard as u64..65536).step_by(shards) {
                for d in 0..65536u64 {
                    pairs16 += 1;
                    if let Err(msg) = check_with::<u16>(n, d, d, 24) {
                        if out.len() < 3 {
                            out.push((ArithCase { bits: 16, n, d, e: d }, Fail { kind: "contract".into(), detail: format!("i16 (exhaustive): {msg}"), cfg: None }));
                        }
                    }
                }
            }
            stats.add("exhaustive-16bit-pairs", pairs16);
        }
        out
    }
    fn exhaustive(&self, _tier: Tier) -> Option<bool> {
        // the 8-bit sub-space is complete in both tiers (16-bit as well in thorough); wider widths are sampled
        Some(false)
    }
    fn floors(&self, tier: Tier) -> Vec<(&'static str, u64)> {
        let q = if tier == Tier::Quick { 1 } else { 40 };
        vec![("exhaustive-8bit-pairs", 65536), ("even-divisor-solvable(masked path)", 400_000 * q), ("division-by-zero", 80_000 * q), ("exponent>=width", 200_000 * q)]
    }
}
