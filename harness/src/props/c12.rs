//! C12 - the parser accepts exactly balanced programs and ignores non-command text.
use crate::bf;
use crate::engine::{Fail, Outcome, Property, Stats, Tier};
use crate::exec::{Backend, RunCfg};
use crate::judge;
use crate::refmodel::{self, Fate};
use crate::verdict::{self, Info};
use hpbf::exec::{BaseJitCompiler, BcInterpreter, Executable, Executor, InplaceInterpreter, IrInterpreter};
use hpbf::runtime::Context;
use hpbf::{ir, ErrorKind};
use proptest::collection::vec;
use proptest::prelude::*;
use serde::{Deserialize, Serialize};

#[derive(Serialize, Deserialize, Clone, Debug)]
pub struct ParseCase {
    pub source: String,
    pub input: Vec<u8>,
    pub level: u32,
}

pub struct C12;

#[derive(Clone, Debug, PartialEq)]
pub enum Expect {
    Accept,
    NotOpened(usize),
    NotClosed(usize),
}

/// The oracle: a bracket matcher over character indices.
pub fn expectation(s: &str) -> Expect {
    let mut stack = vec![];
    for (i, c) in s.chars().enumerate() {
        if c == '[' {
            stack.push(i)
        } else if c == ']' && stack.pop().is_none() {
            return Expect::NotOpened(i);
        }
    }
    match stack.last() {
        Some(&p) => Expect::NotClosed(p),
        None => Expect::Accept,
    }
}

fn strip(s: &str) -> String {
    s.chars().filter(|c| "+-<>.,[]".contains(*c)).collect()
}

fn got<T>(r: Result<T, hpbf::Error>, src: &str) -> Result<Expect, String> {
    match r {
        Ok(_) => Ok(Expect::Accept),
        Err(e) => {
            let _ = src; // what else the error carries is not part of the property
            match e.kind {
                ErrorKind::LoopNotOpened => Ok(Expect::NotOpened(e.position)),
                ErrorKind::LoopNotClosed => Ok(Expect::NotClosed(e.position)),
                k => Err(format!("unexpected error kind {k:?}")),
            }
        }
    }
}

pub fn parse_checks(c: &ParseCase) -> Result<Info, (String, String)> {
    let s = c.source.as_str();
    let exp = expectation(s);
    let fail = |who: &str, g: Result<Expect, String>| -> Result<(), (String, String)> {
        match g {
            Ok(g) if g == exp => Ok(()),
            Ok(g) => Err(("acceptance".to_string(), format!("{who}: expected {exp:?}, got {g:?} for {s:?}"))),
            Err(m) => Err(("acceptance".to_string(), format!("{who}: {m} for {s:?}"))),
        }
    };
    fail("ir::Program::<u8>::parse", got(ir::Program::<u8>::parse(s), s))?;
    fail("ir::Program::<u64>::parse", got(ir::Program::<u64>::parse(s), s))?;
    fail("IrInterpreter::<u64>::create", got(IrInterpreter::<u64>::create(s, c.level), s))?;
    fail("BcInterpreter::<u16>::create", got(BcInterpreter::<u16>::create(s, c.level), s))?;
    fail("BaseJitCompiler::<u32>::create", got(BaseJitCompiler::<u32>::create(s, c.level), s))?;
    // the in-place interpreter must not panic on any string (an Err is fine)
    let e = InplaceInterpreter::<u8>::create(s, 0).map_err(|e| ("acceptance".to_string(), format!("InplaceInterpreter::create failed: {:?}", e.kind)))?;
    let mut cx = Context::<u8>::new(Some(Box::new(&[1u8, 2, 3][..])), None);
    cx.budget = 300;
    let r = e.execute_limited(&mut cx);
    if let Err(err) = &r {
        if exp == Expect::Accept {
            return Err(("acceptance".to_string(), format!("in-place interpreter reports {:?} for a balanced program {s:?}", err.kind)));
        }
    }
    let mut info = Info::new(false);
    if exp == Expect::Accept {
        // comments never change the parse result
        let stripped = strip(s);
        if ir::Program::<u8>::parse(s).ok() != ir::Program::<u8>::parse(&stripped).ok() {
            return Err(("comments".to_string(), format!("parse({s:?}) differs from parse of the same text without comments")));
        }
        if ir::Program::<u32>::parse(s).map(|p| p.optimize(c.level)).ok() != ir::Program::<u32>::parse(&stripped).map(|p| p.optimize(c.level)).ok() {
            return Err(("comments".to_string(), format!("optimised IR of {s:?} differs from that of the same text without comments")));
        }
    }
    let brackets = s.chars().filter(|c| *c == '[' || *c == ']').count();
    let err_pos = match exp {
        Expect::NotOpened(p) | Expect::NotClosed(p) => Some(p),
        Expect::Accept => None,
    };
    let non_ascii_before = match err_pos {
        Some(p) => s.chars().take(p).any(|c| !c.is_ascii()),
        None => s.chars().any(|c| !c.is_ascii()),
    };
    info.classes.push(match exp {
        Expect::Accept => "accepted".to_string(),
        Expect::NotOpened(_) => "loop-not-opened".to_string(),
        Expect::NotClosed(_) => "loop-not-closed".to_string(),
    });
    if non_ascii_before && err_pos.is_some() {
        info.classes.push("error-after-multibyte-char(char index != byte index)".into());
    }
    let nested_unclosed = matches!(exp, Expect::NotClosed(p) if s.chars().take(p).filter(|c| *c == '[').count() > s.chars().take(p).filter(|c| *c == ']').count());
    if nested_unclosed {
        info.classes.push("innermost-of-several-unclosed".into());
    }
    if brackets >= 100 {
        info.classes.push("nesting-depth>=50".into());
    }
    info.nontrivial = brackets >= 2 && (non_ascii_before || nested_unclosed);
    Ok(info)
}

const ALPHABET: &[char] = &['+', '-', '<', '>', '.', ',', '[', ']', '[', ']', '[', ']', ' ', 'a', '\n', '#', '0', '\t', 'é', 'ß', '☃', '→', '𝄞', '🙂', '\u{0}', '\u{feff}', '\u{200b}'];

impl Property for C12 {
    type Gen = ParseCase;
    type Case = ParseCase;
    fn id(&self) -> &'static str {
        "C12"
    }
    fn rule(&self) -> String {
        "source strings of 0..60 characters over the eight commands (brackets over-represented), ASCII noise, 2/3/4-byte UTF-8 characters (incl. NUL, BOM, zero-width space), characters that truncate or mask to a command byte (same low byte such as U+012B for '+', same low 7 bits, command byte in the second byte, fullwidth forms) and arbitrary scalar values, plus balanced generated programs with comment characters spliced in at random character positions, plus (2 %) nests of depth 50..400 that are balanced or off by up to three brackets on either side. Oracle: a bracket matcher over chars().enumerate() gives Accept | LoopNotOpened(first unmatched ']') | LoopNotClosed(innermost open '['); compared (kind, character position) with ir::Program::parse at two cell types and Executor::create of the IR interpreter, the bytecode interpreter and the JIT; InplaceInterpreter::execute_limited must not panic on any string; for accepted strings parse(text) == parse(text without comments), also after optimisation, and the event log of the commented text on all four back ends equals the reference run of the stripped text. Non-trivial: at least two brackets and a non-ASCII character before the error position (character index differs from byte index), or several unclosed loops; distinct = distinct (source, input, level)".into()
    }
    fn assumptions(&self) -> Vec<String> {
        vec!["nesting depth stays moderate (strings are at most 60 characters plus spliced programs)".into()]
    }
    fn cases(&self, tier: Tier) -> u64 {
        match tier {
            Tier::Quick => 120_000,
            Tier::Thorough => 3_000_000,
        }
    }
    fn strategy(&self, _tier: Tier) -> BoxedStrategy<ParseCase> {
        use crate::bf::comment_char;
        let any_char = prop_oneof![5 => (0..12usize).prop_map(|i| ALPHABET[i]), 4 => comment_char()];
        let text = vec(any_char, 0..60).prop_map(|v| v.into_iter().collect::<String>());
        // balanced program with comments spliced in
        let commented = (bf::raw_tokens(2, 40), vec((any::<u16>(), comment_char()), 0..12)).prop_map(|(t, ins)| {
            let prog = bf::render_raw(&t);
            let mut chars: Vec<char> = prog.chars().collect();
            for (pos, ch) in ins {
                let at = (pos as usize * (chars.len() + 1)) >> 16;
                chars.insert(at, ch);
            }
            chars.into_iter().collect::<String>()
        });
        // moderate nesting depth (hundreds): deep nests, balanced or off by a few brackets on either side,
        // with a comment character (possibly multi-byte) in front so that character and byte indices differ
        let deep = (50usize..400, 0usize..4, 0usize..4, proptest::option::weighted(0.6, comment_char()), 0usize..3).prop_map(|(d, missing_close, extra_close, lead, body)| {
            let mut s = String::new();
            if let Some(c) = lead {
                s.push(c);
            }
            for _ in 0..d {
                s.push('[');
            }
            s.push_str(["-", "+>", ""][body]);
            for _ in 0..(d + extra_close).saturating_sub(missing_close) {
                s.push(']');
            }
            s
        });
        (prop_oneof![30 => text, 20 => commented, 1 => deep], bf::input_bytes(), 0u32..4).prop_map(|(source, input, level)| ParseCase { source, input, level }).boxed()
    }
    fn concretize(&self, g: &ParseCase) -> ParseCase {
        g.clone()
    }
    fn check(&self, c: &ParseCase, stats: &mut Stats) -> Outcome {
        let c2 = c.clone();
        let out = verdict::in_child(std::time::Duration::from_secs(10), stats, move || parse_checks(&c2));
        match out {
            Outcome::Pass { nontrivial } => {
                // behaviour: commented text on all four back ends == reference run of the stripped text
                if expectation(&c.source) == Expect::Accept && c.source.chars().any(|ch| !"+-<>.,[]".contains(ch)) {
                    let stripped = strip(&c.source);
                    let r = refmodel::run(&stripped, &c.input, 8, 100_000);
                    if r.fate == Fate::Halt {
                        let cfgs = [RunCfg::plain(Backend::Inplace, 0), RunCfg::plain(Backend::Ir, c.level), RunCfg::plain(Backend::Bc, c.level), RunCfg::plain(Backend::Jit, c.level)];
                        let (verdicts, _) = judge::run_and_judge(&c.source, &c.input, 8, &cfgs, &r);
                        for v in verdicts {
                            if let judge::Verdict::Violation(f) = v {
                                return Outcome::Fail(Fail { kind: "comments".into(), detail: format!("[{}] behaviour of the commented text differs from the reference run of the stripped text: {}", cfgs[f.cfg].describe(8), f.detail), cfg: Some(f.cfg) });
                            }
                        }
                        stats.class("commented-program-executed-on-all-back-ends");
                    }
                }
                Outcome::Pass { nontrivial }
            }
            o => o,
        }
    }
    fn fuzz_target(&self) -> Option<&'static str> {
        Some("parse")
    }
    fn decode_fuzz(&self, bytes: &[u8]) -> Option<ParseCase> {
        crate::fuzzdec::parse_case(&mut arbitrary::Unstructured::new(bytes)).ok()
    }
    fn floors(&self, tier: Tier) -> Vec<(&'static str, u64)> {
        let q = if tier == Tier::Quick { 1 } else { 25 };
        vec![("nontrivial", 15_000 * q), ("accepted", 20_000 * q), ("loop-not-opened", 15_000 * q), ("loop-not-closed", 10_000 * q), ("commented-program-executed-on-all-back-ends", 8_000 * q), ("nesting-depth>=50", 1_000 * q)]
    }
}
