#![no_main]
// C15: expression algebra vs. the harness's own tree evaluator.
use arbitrary::Unstructured;
use hpbf_verif::{fuzzdec, props::c15, with_cell};
use libfuzzer_sys::fuzz_target;

fuzz_target!(|data: &[u8]| {
    let mut u = Unstructured::new(data);
    let Ok(c) = fuzzdec::expr_case(&mut u) else { return };
    if let Err(msg) = with_cell!(c.bits, C, c15::check_case::<C>(&c)) {
        panic!("VIOLATION C15 {msg} CASE {}", serde_json::to_string(&c).unwrap());
    }
});
