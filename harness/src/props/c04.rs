//! C04 - the in-place interpreter implements canonical Brainfuck.
use crate::bf::Mix;
use crate::child::Obs;
use crate::engine::{Stats, Tier};
use crate::exec::{Backend, RunCfg};
use crate::progs::{ProgCase, ProgProperty, Sel};
use crate::refmodel::RefRun;

pub struct C04;

impl ProgProperty for C04 {
    fn id(&self) -> &'static str {
        "C04"
    }
    fn rule(&self) -> String {
        "generated programs (raw / structured idioms / roaming / deep nests / candidate infinite loops, see DESIGN 2.5) x input x width, run by InplaceInterpreter::execute and compared event-for-event (interleaving included) with the reference interpreter; a case is non-trivial if the canonical run skips a loop that itself contains a loop, or wraps a cell, or reads past the end of input; distinct = distinct (program, input, width) A third of the halting programs at 16/32 bit and two thirds at 64 bit carry the upper-bits probe (family `...+probe`): an appended epilogue takes the canonical final value of every small-magnitude cell out again, counts the cells in which anything is left and prints the count (0 canonically), which makes the bits above the low byte observable.".into()
    }
    fn assumptions(&self) -> Vec<String> {
        vec!["the reference interpreter and the in-place interpreter share no code".into()]
    }
    fn cases(&self, tier: Tier) -> u64 {
        match tier {
            Tier::Quick => 60_000,
            Tier::Thorough => 2_000_000,
        }
    }
    fn mix(&self, _tier: Tier) -> Mix {
        Mix { raw: 30, strukt: 35, div: 10, wide: 3, big: 0, roam: 12, deep: 10, commented: 12, hibits: 0 }
    }
    fn make_cfgs(&self, sel: &Sel, _p: &str, _i: &[u8], _b: u32, _r: &RefRun) -> Vec<RunCfg> {
        // the level argument is ignored by this back end; pass whatever was drawn
        vec![RunCfg::plain(Backend::Inplace, sel.level)]
    }
    fn nontrivial(&self, _c: &ProgCase, r: &RefRun, _obs: &[Option<Obs>], stats: &mut Stats) -> bool {
        if r.skipped_nested > 0 {
            stats.class("skipped-loop-containing-loop");
        }
        stats.max("max-dynamic-nesting", r.max_depth as u64);
        r.skipped_nested > 0 || r.wraps > 0 || r.eof_reads > 0
    }
    fn probe_upper_bits(&self) -> bool {
        true
    }
    fn floors(&self, tier: Tier) -> Vec<(&'static str, u64)> {
        let q = if tier == Tier::Quick { 1 } else { 30 };
        vec![("skipped-loop-containing-loop", 1500 * q), ("cell-wrapped", 3000 * q), ("input-exhausted", 3000 * q)]
    }
}
