//! The generic oracle comparison for program-running properties: given the
//! canonical run and one configuration's observation, decide whether the real
//! code behaved as the properties demand.

use crate::child::{self, ChildRun, End, Exit, Obs};
use crate::exec::{self, Fault, Mode, RunCfg};
use crate::refmodel::{ev_string, Ev, Fate, RefRun};
use serde::{Deserialize, Serialize};
use std::time::Duration;

pub const UNLIMITED_BUDGET: u64 = 1 << 62;

#[derive(Clone, Debug, Serialize, Deserialize)]
pub struct Failure {
    /// stable class of the failure; shrinking must preserve it
    pub kind: String,
    pub detail: String,
    /// index of the failing configuration
    pub cfg: usize,
}

#[derive(Clone, Debug)]
pub enum Verdict {
    Ok,
    Violation(Failure),
    /// could not be decided (e.g. an unconfirmed watchdog hit)
    Inconclusive(String),
}

/// Canonical events a correct run must produce first, to length `n`, including
/// for divergent programs (the detected cycle is unrolled).
pub fn expected_prefix(r: &RefRun, n: usize) -> Vec<Ev> {
    if n <= r.events.len() || r.fate != Fate::Diverges || r.cycle_events == 0 {
        return r.events[..n.min(r.events.len())].to_vec();
    }
    let mut v = r.events.clone();
    let cyc = &r.events[r.cycle_start_events..r.cycle_start_events + r.cycle_events].to_vec();
    // events after the snapshot repeat with period cycle_events
    let mut i = 0;
    while v.len() < n {
        v.push(cyc[i % cyc.len()]);
        i += 1;
    }
    v
}

/// Is the total number of canonical events known (finite)?
pub fn total_events_known(r: &RefRun) -> bool {
    r.fate == Fate::Halt || (r.fate == Fate::Diverges && r.cycle_events == 0)
}

/// The attempts log a correct run produces under `fault`, if the fault is
/// reached within the known canonical events. `None` = fault not reached.
pub fn expected_under_fault(r: &RefRun, fault: Fault) -> Option<Vec<Ev>> {
    let evs = expected_prefix(r, r.events.len());
    let mut exp = vec![];
    let (mut ki, mut ko) = (0usize, 0usize);
    for e in &evs {
        match (e, fault) {
            (Ev::Out(_), Fault::OutZeroAt(k)) | (Ev::Out(_), Fault::OutErrAt(k)) => {
                exp.push(*e);
                if ko == k {
                    return Some(exp);
                }
                ko += 1;
            }
            (Ev::In, Fault::InErrAt(k)) => {
                exp.push(*e);
                if ki == k {
                    return Some(exp);
                }
                ki += 1;
            }
            (Ev::In, Fault::InAbsent) => return Some(exp),
            _ => exp.push(*e),
        }
    }
    None
}

fn first_diff(a: &[Ev], b: &[Ev]) -> usize {
    a.iter().zip(b.iter()).position(|(x, y)| x != y).unwrap_or(a.len().min(b.len()))
}

fn show(evs: &[Ev], around: usize) -> String {
    let lo = around.saturating_sub(6);
    let hi = (around + 6).min(evs.len());
    format!("[{}..{}]={}", lo, hi, ev_string(&evs[lo..hi]))
}

fn mismatch(cfg: usize, what: &str, exp: &[Ev], got: &[Ev]) -> Verdict {
    let i = first_diff(exp, got);
    Verdict::Violation(Failure {
        kind: "mismatch".into(),
        detail: format!("{what}: expected {} events, got {}; first difference at event {i}: expected {} got {}", exp.len(), got.len(), show(exp, i), show(got, i)),
        cfg,
    })
}

/// Judge one configuration. `exit` is how the child ended; it matters only if
/// this configuration was cut short.
pub fn judge(r: &RefRun, idx: usize, cfg: &RunCfg, obs: Option<&Obs>, exit: &Exit) -> Verdict {
    let obs = match obs {
        Some(o) => o,
        None => return Verdict::Inconclusive("configuration not run (an earlier one ended the child)".into()),
    };
    let got = &obs.events;
    // Every log must at least be a prefix of the canonical sequence (or of the
    // expected attempts under a fault); check that first, it holds even for cut runs.
    let fault_exp = match cfg.fault {
        Fault::None => None,
        Fault::OutAbsent => {
            let all = expected_prefix(r, got.len().max(r.events.len()));
            Some(all.into_iter().filter(|e| matches!(e, Ev::In)).collect::<Vec<_>>())
        }
        f => match expected_under_fault(r, f) {
            Some(e) => Some(e),
            None => return Verdict::Inconclusive("fault not reached within the known canonical events".into()),
        },
    };
    let canon: Vec<Ev> = match &fault_exp {
        Some(e) => e.clone(),
        None => expected_prefix(r, got.len().max(r.events.len())),
    };
    let complete_known = fault_exp.is_some() && cfg.fault != Fault::OutAbsent || total_events_known(r);
    let n = got.len().min(canon.len());
    if got[..n] != canon[..n] {
        return mismatch(idx, "events differ from the canonical sequence", &canon, got);
    }
    if got.len() > canon.len() && (complete_known || matches!(cfg.fault, Fault::OutAbsent) && total_events_known(r)) {
        return mismatch(idx, "events after the canonical sequence ended", &canon, got);
    }
    match &obs.end {
        End::Panicked(msg) => Verdict::Violation(Failure { kind: "panic".into(), detail: format!("panicked: {msg}"), cfg: idx }),
        End::Cut => match exit {
            Exit::Signal(s) => Verdict::Violation(Failure { kind: format!("crash:{}", child::signal_name(*s)), detail: format!("killed by {} after {} events", child::signal_name(*s), got.len()), cfg: idx }),
            Exit::Code(c) if *c == child::EXIT_TOO_MANY_EVENTS => mismatch(idx, "more events than the canonical run has", &canon, got),
            Exit::Code(c) if *c == child::EXIT_LOG_FULL => {
                if expects_no_return(r, cfg) {
                    Verdict::Ok // still running (and logging canonical events) when the log filled up
                } else {
                    Verdict::Inconclusive("event log full".into())
                }
            }
            Exit::Code(c) => Verdict::Violation(Failure { kind: "exit".into(), detail: format!("process exited with code {c} inside the call"), cfg: idx }),
            Exit::Timeout => {
                if expects_no_return(r, cfg) {
                    // the call is still running at the end of the window, as it must be;
                    // everything it logged is canonical (checked above)
                    if r.cycle_events > 0 || got.len() == r.events.len() {
                        Verdict::Ok
                    } else {
                        Verdict::Inconclusive(format!("divergent run had logged only {} of {} events at the deadline", got.len(), r.events.len()))
                    }
                } else {
                    Verdict::Inconclusive("timeout".into())
                }
            }
        },
        End::Returned(fin) => {
            let faulted = fault_exp.is_some() && cfg.fault != Fault::OutAbsent;
            // the complete sequence as this configuration can observe it (no sink: input requests only)
            let full: Vec<Ev> = if cfg.fault == Fault::OutAbsent { r.events.iter().copied().filter(|e| matches!(e, Ev::In)).collect() } else { r.events.clone() };
            match (cfg.mode, fin) {
                (Mode::Limited(budget), Some(finished)) => {
                    if faulted {
                        // stopped at the failing operation; either flag is acceptable, the log must be exact
                        if *got != canon {
                            return mismatch(idx, "run with failing I/O did not stop exactly at the failing operation", &canon, got);
                        }
                        return Verdict::Ok;
                    }
                    if *finished {
                        match r.fate {
                            Fate::Diverges => Verdict::Violation(Failure { kind: "finished-divergent".into(), detail: format!("reported finished for a canonically divergent program (budget {budget})"), cfg: idx }),
                            Fate::Halt => {
                                if *got != full {
                                    mismatch(idx, "reported finished but events are not the complete canonical sequence", &full, got)
                                } else {
                                    Verdict::Ok
                                }
                            }
                            Fate::Unknown => {
                                if got.len() < full.len() {
                                    mismatch(idx, "reported finished with fewer events than the canonical run is known to have", &full, got)
                                } else {
                                    Verdict::Ok
                                }
                            }
                        }
                    } else if budget >= UNLIMITED_BUDGET && r.fate == Fate::Halt {
                        Verdict::Violation(Failure { kind: "not-finished".into(), detail: format!("canonically terminating program ({} steps) reported interrupted with budget {budget}", r.steps), cfg: idx })
                    } else {
                        Verdict::Ok
                    }
                }
                (Mode::Limited(_), None) => Verdict::Inconclusive("harness: limited without flag".into()),
                (_, _) => {
                    // execute / execute_unsafe returned
                    if faulted {
                        if *got != canon {
                            return mismatch(idx, "run with failing I/O did not stop exactly at the failing operation", &canon, got);
                        }
                        return Verdict::Ok;
                    }
                    match r.fate {
                        Fate::Halt => {
                            if *got != full {
                                mismatch(idx, "returned before producing the complete canonical sequence", &full, got)
                            } else {
                                Verdict::Ok
                            }
                        }
                        Fate::Diverges => Verdict::Violation(Failure { kind: "returned-divergent".into(), detail: format!("returned from a canonically divergent program after {} events", got.len()), cfg: idx }),
                        Fate::Unknown => Verdict::Ok,
                    }
                }
            }
        }
    }
}

/// Configurations that must never return: unlimited execution of a canonically
/// divergent program without an I/O fault.
pub fn expects_no_return(r: &RefRun, cfg: &RunCfg) -> bool {
    // an effectively unlimited budget behaves like plain execution here
    let unlimited = match cfg.mode {
        Mode::Limited(b) => b >= (1 << 40),
        _ => true,
    };
    r.fate == Fate::Diverges && unlimited && matches!(cfg.fault, Fault::None | Fault::OutAbsent)
}

/// Window for a configuration that is expected not to return: long enough that a
/// backend which terminates would have done so (>= 100x the canonical prefix).
pub fn no_return_window(r: &RefRun) -> Duration {
    Duration::from_millis(300 + r.steps / 2_000)
}

/// Watchdog window for a child running `ncfgs` configurations of a program
/// whose canonical run took `steps` steps.
pub fn window(steps: u64, ncfgs: usize) -> Duration {
    let base = if FAST_REJECT.load(std::sync::atomic::Ordering::Relaxed) {
        250
    } else if HANG_SHRINK.load(std::sync::atomic::Ordering::Relaxed) {
        700
    } else {
        2_000
    };
    let per = base + steps / 500; // ms: 2 s + 2 us per canonical step
    Duration::from_millis(per * ncfgs.max(1) as u64)
}

/// While shrinking a failure that is not a hang, candidates that hang are
/// simply rejected (short window, no confirmation): a timeout can then only
/// lose a shrink step, never create a finding.
pub static FAST_REJECT: std::sync::atomic::AtomicBool = std::sync::atomic::AtomicBool::new(false);

/// While shrinking a confirmed hang, a candidate that is still running after a
/// short window counts as hanging without the 10x confirmation; the minimal
/// case is confirmed in full afterwards (and discarded if it does not confirm).
pub static HANG_SHRINK: std::sync::atomic::AtomicBool = std::sync::atomic::AtomicBool::new(false);

/// Run all configurations in one forked child.
pub fn run_child(code: &str, input: &[u8], bits: u32, cfgs: &[RunCfg], r: &RefRun, timeout: Duration) -> ChildRun {
    let cap = if total_events_known(r) { r.events.len() + 64 } else { usize::MAX };
    // the child watches each configuration itself; the parent's window is the sum plus slack
    let per = (timeout.as_millis() as u64 / cfgs.len().max(1) as u64).max(50);
    child::in_child(timeout + Duration::from_millis(1500), || {
        exec::run_all(code, input, bits, cfgs, cap, per);
        0
    })
}

/// Run the configurations, judge each, confirm hangs in isolation with a 10x window.
/// Returns per-config verdicts and the child run (for notes).
pub fn run_and_judge(code: &str, input: &[u8], bits: u32, cfgs: &[RunCfg], r: &RefRun) -> (Vec<Verdict>, Vec<Option<Obs>>) {
    let mut verdicts: Vec<Verdict> = Vec::with_capacity(cfgs.len());
    let mut observations: Vec<Option<Obs>> = vec![None; cfgs.len()];
    let mut start = 0;
    while start < cfgs.len() {
        // a configuration that must not return gets a child (and a window) of its own
        let mut end = start;
        while end < cfgs.len() && !expects_no_return(r, &cfgs[end]) {
            end += 1;
        }
        let (batch, win) = if end == start { (&cfgs[start..start + 1], no_return_window(r)) } else { (&cfgs[start..end], window(r.steps, end - start)) };
        let run = run_child(code, input, bits, batch, r, win);
        let mut next = start + batch.len();
        for (j, cfg) in batch.iter().enumerate() {
            let idx = start + j;
            let obs = run.obs.iter().find(|o| o.cfg == j);
            let mut v = judge(r, idx, cfg, obs, &run.exit);
            if let Some(o) = obs {
                observations[idx] = Some(o.clone());
            }
            let cut = obs.map(|o| o.end == End::Cut).unwrap_or(false);
            // only a run that is otherwise in order (canonical prefix, fault reachable) and was cut by the watchdog
            let timed_out = matches!(&v, Verdict::Inconclusive(w) if w == "timeout");
            if timed_out && cut && run.exit == Exit::Timeout && !expects_no_return(r, cfg) && !FAST_REJECT.load(std::sync::atomic::Ordering::Relaxed) {
                v = confirm_hang(code, input, bits, idx, cfg, r);
            }
            let stop = cut || obs.is_none();
            if obs.is_none() {
                // not reached because an earlier config ended the child: rerun from here
                next = idx;
                break;
            }
            verdicts.push(v);
            if stop {
                next = idx + 1;
                break;
            }
        }
        if next <= start {
            // no progress (child died before logging anything)
            verdicts.push(match &run.exit {
                Exit::Signal(s) => Verdict::Violation(Failure { kind: format!("crash:{}", child::signal_name(*s)), detail: "child died before the configuration started".into(), cfg: start }),
                e => Verdict::Inconclusive(format!("child ended {:?} before the configuration started", e)),
            });
            next = start + 1;
        }
        start = next;
    }
    (verdicts, observations)
}

/// A watchdog hit is re-tried once in isolation with a 10x window; only a
/// confirmed hang is a result, and it is a violation exactly where the oracle
/// says the call must return.
fn confirm_hang(code: &str, input: &[u8], bits: u32, idx: usize, cfg: &RunCfg, r: &RefRun) -> Verdict {
    let must_return = match (cfg.mode, r.fate) {
        (_, Fate::Halt) => true,
        (Mode::Limited(b), _) => b <= 1000 && code.len() <= 400,
        _ => cfg.fault != Fault::None && cfg.fault != Fault::OutAbsent,
    };
    if !must_return {
        return Verdict::Inconclusive("watchdog hit on a run that need not return".into());
    }
    if HANG_SHRINK.load(std::sync::atomic::Ordering::Relaxed) {
        return Verdict::Violation(Failure { kind: "hang".into(), detail: "still running after the shrink window (unconfirmed)".into(), cfg: idx });
    }
    let w = window(r.steps, 1) * 10;
    let run = run_child(code, input, bits, std::slice::from_ref(cfg), r, w);
    let obs = run.obs.iter().find(|o| o.cfg == 0);
    if run.exit == Exit::Timeout {
        let n = obs.map(|o| o.events.len()).unwrap_or(0);
        return Verdict::Violation(Failure { kind: "hang".into(), detail: format!("did not return within {:?} (canonical run: {} steps, {:?}); {} events logged", w, r.steps, r.fate, n), cfg: idx });
    }
    match judge(r, idx, cfg, obs, &run.exit) {
        Verdict::Ok => Verdict::Inconclusive("watchdog hit not confirmed in isolation".into()),
        v => v,
    }
}
