//! Program generators (proptest strategies over ASTs that render to balanced
//! Brainfuck text). Brackets are balanced by construction; shrinking removes
//! nodes, unwraps bodies and simplifies idiom parameters.

use proptest::collection::vec;
use proptest::prelude::*;

/// Text writer that tracks the (static) pointer position.
pub struct W {
    pub s: String,
    pub cur: i64,
}
impl W {
    pub fn new() -> W {
        W { s: String::new(), cur: 0 }
    }
    pub fn go(&mut self, to: i64) {
        let d = to - self.cur;
        for _ in 0..d.abs() {
            self.s.push(if d > 0 { '>' } else { '<' })
        }
        self.cur = to;
    }
    pub fn e(&mut self, t: &str) {
        self.s.push_str(t)
    }
    pub fn rep(&mut self, c: char, n: u64) {
        for _ in 0..n {
            self.s.push(c)
        }
    }
    /// dst += src (src preserved), tmp must be 0
    pub fn copy(&mut self, src: i64, dst: i64, tmp: i64) {
        self.copy_signed(src, dst, tmp, false)
    }
    pub fn copy_signed(&mut self, src: i64, dst: i64, tmp: i64, neg: bool) {
        self.go(src);
        self.e("[-");
        self.go(dst);
        self.e(if neg { "-" } else { "+" });
        self.go(tmp);
        self.e("+");
        self.go(src);
        self.e("]");
        self.go(tmp);
        self.e("[-");
        self.go(src);
        self.e("+");
        self.go(tmp);
        self.e("]");
    }
    /// dst += a*b ; t0,t1 zero
    pub fn mul(&mut self, a: i64, b: i64, dst: i64, t0: i64, t1: i64) {
        self.mul_signed(a, b, dst, t0, t1, false)
    }
    pub fn mul_signed(&mut self, a: i64, b: i64, dst: i64, t0: i64, t1: i64, neg: bool) {
        self.copy(a, t0, t1);
        self.go(t0);
        self.e("[-");
        self.copy_signed(b, dst, t1, neg);
        self.go(t0);
        self.e("]");
    }
    /// dst += a*b*c ; t0,t1,t2 zero
    pub fn mul3(&mut self, a: i64, b: i64, c: i64, dst: i64, t0: i64, t1: i64, t2: i64) {
        self.copy(a, t0, t1);
        self.go(t0);
        self.e("[-");
        self.copy(b, t2, t1);
        self.go(t2);
        self.e("[-");
        self.copy(c, dst, t1);
        self.go(t2);
        self.e("]");
        self.go(t0);
        self.e("]");
    }
    pub fn addk(&mut self, c: i64, k: i64) {
        self.go(c);
        for _ in 0..k.abs() {
            self.e(if k > 0 { "+" } else { "-" })
        }
    }
    pub fn clear(&mut self, c: i64) {
        self.go(c);
        self.e("[-]")
    }
    pub fn mov(&mut self, src: i64, dst: i64) {
        self.go(src);
        self.e("[-");
        self.go(dst);
        self.e("+");
        self.go(src);
        self.e("]")
    }
}

// ---------------------------------------------------------------- G-raw

const RAW_CHARS: &[u8; 8] = b"+-<>.,[]";

/// Render raw tokens (0..8) to balanced text: `]` is only emitted when a loop
/// is open, open loops are closed at the end.
pub fn render_raw(tokens: &[u8]) -> String {
    let mut s = String::new();
    let mut open = 0;
    for &t in tokens {
        match RAW_CHARS[(t % 8) as usize] {
            b'[' => {
                open += 1;
                s.push('[')
            }
            b']' => {
                if open > 0 {
                    open -= 1;
                    s.push(']')
                }
            }
            c => s.push(c as char),
        }
    }
    for _ in 0..open {
        s.push(']')
    }
    s
}

/// Weighted raw tokens; the weights themselves are generated.
pub fn raw_tokens(min: usize, max: usize) -> impl Strategy<Value = Vec<u8>> {
    (vec(1u8..9, 8), vec(any::<u16>(), min..max)).prop_map(|(w, picks)| {
        let mut w = w;
        w[5] = w[5].min(4); // ','
        let tot: u32 = w.iter().map(|x| *x as u32).sum();
        picks
            .into_iter()
            .map(|p| {
                // monotone map from pick to token so shrinking moves to token 0
                let mut k = (p as u32 * tot) >> 16;
                let mut c = 0u8;
                for (i, wi) in w.iter().enumerate() {
                    if k < *wi as u32 {
                        c = i as u8;
                        break;
                    }
                    k -= *wi as u32;
                }
                c
            })
            .collect()
    })
}

// ---------------------------------------------------------------- G-struct

#[derive(Clone, Debug)]
pub enum Node {
    /// raw command tokens without brackets (0..6 -> "+-<>.,")
    Raw(Vec<u8>),
    Idiom(Idiom),
}

#[derive(Clone, Debug)]
pub struct Idiom {
    pub kind: u8,
    pub sel: [u8; 4],
    pub k: u8,
    pub m: u8,
    pub flag: bool,
    pub body: Vec<Node>,
}

pub const K_ADD: u8 = 0;
pub const K_OUT: u8 = 1;
pub const K_IN: u8 = 2;
pub const K_CLEAR: u8 = 3;
pub const K_MOVEADD: u8 = 4;
pub const K_STEPLOOP: u8 = 5;
pub const K_COPY: u8 = 6;
pub const K_DOUBLING: u8 = 7;
pub const K_MUL: u8 = 8;
pub const K_GEOMETRIC: u8 = 9;
pub const K_TRIANGULAR: u8 = 10;
pub const K_OUTLOOP: u8 = 11;
pub const K_INLOOP: u8 = 12;
pub const K_SCAN: u8 = 13;
pub const K_NONUNIT: u8 = 14;
pub const K_REFILL: u8 = 15;
pub const K_IFELSE: u8 = 16;
pub const K_COUNTUP: u8 = 17;
pub const K_SUBTRACT: u8 = 18;
pub const K_SQUARE: u8 = 19;
pub const K_SWAP: u8 = 20;
pub const K_DIVCAND: u8 = 21; // candidate infinite loop (G-div)
pub const K_IOCHAIN: u8 = 22; // loop whose body updates and prints several cells around an input
pub const K_CONSTLOOP: u8 = 23; // loop with a compile-time constant trip count (up to ~60)
pub const K_ARRAY: u8 = 24; // pointer-shifting loop over an array of known length
pub const K_ACCUMIN: u8 = 25; // loop that uses a cell and then overwrites it with input (read until zero)
pub const K_RESCALE: u8 = 26; // loop that rescales its own condition cell: x = f*x + c (terminates when the factor is even, at 8/16 bit)
pub const K_COUNTED: u8 = 27; // with body
pub const K_IFLIKE: u8 = 28; // with body
pub const K_WHILE: u8 = 29; // with body
pub const N_LEAF_KINDS: u8 = 27;

pub const DIV_CANDIDATES: &[&str] = &[
    "+[]", "+[.]", "+[>+<]", "[]", "+[-+]", "+[[-]+]", ",[.]", "+[>]", "-[+>+<-]", ",[]", ",[>+<]", "+[>.<]", ",[[.]]", "+[>,<]", "+[>[-]<]", "[.]", "-[.+]", "+[[>]<]",
    // even steps never reach zero from an odd start; bodies with a hoistable write
    // the loop rescales its own condition cell and sits on a fixed point (x = 2x - 1 at 1, x = 3x - 2 at 1, x = 2x + 2 at -2)
    "+[>[-]<[->++<]>-[-<+>]<]", "+[>[-]<[->+++<]>--[-<+>]<.]", "--[>[-]<[->++<]>++[-<+>]<]", "+[>[-]<[->++<]>[-<+>]<->+<]",
    ",[-->[-]+<]", "+[-->[-]++<]", ",[++>[-]<]", "+++[-->+<]", ",[---->.<]", "+[++>[-]+<]", ",[>[-]+<--]", ",[>[]<-]", ",[[-]+]", "+[>[-]<[-]+]",
];

/// Choose 4 distinct cells in 0..n from 4 selector bytes (n >= 4); constructed,
/// not filtered, and monotone in each selector.
pub fn pick4(sel: [u8; 4], n: i64) -> [i64; 4] {
    let mut avail: Vec<i64> = (0..n).collect();
    let mut out = [0i64; 4];
    for i in 0..4 {
        let idx = (sel[i] as usize * avail.len()) >> 8;
        out[i] = avail.remove(idx);
    }
    out
}

pub fn render_nodes(nodes: &[Node], n: i64, w: &mut W) {
    for nd in nodes {
        match nd {
            Node::Raw(t) => {
                for &c in t {
                    w.s.push(b"+-<>.,"[(c % 6) as usize] as char)
                }
            }
            Node::Idiom(i) => render_idiom(i, n, w),
        }
    }
}

fn render_idiom(i: &Idiom, n: i64, w: &mut W) {
    let home = w.cur;
    // cells are relative to the static home position
    let [a, b, c, d] = pick4(i.sel, n).map(|x| x + home);
    let k = i.k as u64;
    let m = i.m as u64;
    match i.kind {
        K_ADD => {
            w.go(a);
            w.rep(if i.flag { '-' } else { '+' }, 1 + k % 5);
        }
        K_OUT => {
            w.go(a);
            w.e(".");
        }
        K_IN => {
            w.go(a);
            w.e(",");
        }
        K_CLEAR => w.clear(a),
        K_MOVEADD => {
            w.go(a);
            w.e("[-");
            w.go(b);
            w.rep(if i.flag { '-' } else { '+' }, 1 + k % 3);
            if m % 2 == 1 {
                w.go(c);
                w.rep('+', 1 + (m / 2) % 3);
            }
            w.go(a);
            w.e("]");
        }
        K_STEPLOOP => {
            w.go(a);
            w.e("[");
            w.go(b);
            w.e("+");
            w.go(a);
            w.rep('-', 1 + k % 3);
            w.e("]");
        }
        K_COPY => {
            // generic: the temp c is not cleared first
            if i.flag {
                w.clear(c);
            }
            w.copy(a, b, c);
        }
        K_DOUBLING => {
            w.go(a);
            w.e("[-");
            w.go(b);
            w.e("+");
            w.go(a);
            w.e("]");
            w.go(b);
            w.e("[-");
            w.go(a);
            w.e("+");
            w.go(c);
            w.e("+");
            w.go(b);
            w.e("]");
        }
        K_MUL => {
            w.go(a);
            w.e("[-");
            w.go(b);
            w.e("[-");
            w.go(c);
            w.e("+");
            w.go(d);
            w.e("+");
            w.go(b);
            w.e("]");
            w.go(d);
            w.e("[-");
            w.go(b);
            w.e("+");
            w.go(d);
            w.e("]");
            w.go(a);
            w.e("]");
        }
        K_GEOMETRIC => {
            // loop a times { b = b*mul + add } via temp c
            w.clear(c);
            w.go(a);
            w.e("[-");
            w.go(b);
            w.e("[-");
            w.go(c);
            w.rep('+', 2 + k % 3);
            w.go(b);
            w.e("]");
            w.go(c);
            w.e("[-");
            w.go(b);
            w.e("+");
            w.go(c);
            w.e("]");
            w.go(b);
            w.rep(if i.flag { '-' } else { '+' }, m % 3);
            w.go(a);
            w.e("]");
        }
        K_TRIANGULAR => {
            // loop a times { b += k (maybe visible) ; c += b }
            w.go(a);
            w.e("[-");
            w.go(b);
            w.rep('+', 1 + k % 3);
            if i.flag {
                w.e(".");
            }
            if m % 2 == 0 {
                w.clear(d);
                w.copy(b, c, d);
            } else {
                w.go(b);
                w.e("[-");
                w.go(c);
                w.e("+");
                w.go(b);
                w.e("]");
            }
            w.go(a);
            w.e("]");
        }
        K_OUTLOOP => {
            w.go(a);
            w.e("[");
            w.go(b);
            w.e(".");
            if i.flag {
                w.e("+")
            }
            w.go(a);
            w.e("-]");
        }
        K_INLOOP => {
            w.go(a);
            w.e("[");
            w.go(b);
            w.e(",");
            if i.flag {
                w.go(c);
                w.e("+")
            }
            w.go(a);
            w.e("-]");
        }
        K_SCAN => {
            w.go(a);
            w.e("[");
            w.rep(if i.flag { '>' } else { '<' }, 1 + k % 3);
            w.e("]");
            // the pointer is unknown from here on; the text continues as if it had not moved
        }
        K_NONUNIT => {
            w.go(a);
            w.e("[");
            w.rep('-', 2 + k % 3);
            w.go(b);
            w.e("+");
            w.go(a);
            w.e("]");
        }
        K_REFILL => {
            w.go(a);
            w.e("[");
            w.go(b);
            w.e("[-");
            w.go(a);
            w.e("+");
            w.go(b);
            w.e("]");
            w.go(a);
            w.e("-");
            if i.flag {
                w.go(c);
                w.e("+")
            }
            w.go(a);
            w.e("]");
        }
        K_IFELSE => {
            w.clear(c);
            w.go(c);
            w.e("+");
            w.go(a);
            w.e("[");
            w.go(b);
            w.rep('+', 1 + k % 3);
            w.go(c);
            w.e("-");
            w.go(a);
            w.e("[-]]");
            w.go(c);
            w.e("[");
            w.go(b);
            w.rep('-', 1 + m % 3);
            w.go(c);
            w.e("-]");
        }
        K_COUNTUP => {
            w.go(a);
            w.e("[");
            w.go(b);
            w.e("+");
            w.go(a);
            w.e("+]");
        }
        K_SUBTRACT => {
            // b -= a (a preserved via c when flag)
            if i.flag {
                w.clear(c);
                w.copy_signed(a, b, c, true);
            } else {
                w.go(a);
                w.e("[-");
                w.go(b);
                w.e("-");
                w.go(a);
                w.e("]");
            }
        }
        K_SQUARE => {
            // c += a*a using temps b(d) (cleared first)
            w.clear(b);
            w.clear(d);
            w.mul(a, a, c, b, d);
        }
        K_SWAP => {
            // swap a and b via c
            w.clear(c);
            w.mov(a, c);
            w.mov(b, a);
            w.mov(c, b);
        }
        K_IOCHAIN => {
            // a[ (c_i -= 1; print c_i) x cnt ; input d ; (c_i -= 1) x cnt ; a-- ]: keeps values in
            // temporaries across the runtime calls for output and input
            let cnt = (2 + k % 6).min(n as u64 - 2) as i64;
            let cells: Vec<i64> = (0..n).map(|x| x + home).filter(|x| *x != a && *x != b).take(cnt as usize).collect();
            w.go(a);
            w.e("[");
            for &c in &cells {
                w.go(c);
                w.e(if i.flag { "-." } else { "+." });
            }
            w.go(b);
            w.e(if m % 3 == 0 { "." } else { "," });
            for &c in &cells {
                w.go(c);
                w.e("-");
            }
            w.go(a);
            w.e("-]");
        }
        K_CONSTLOOP => {
            // a = constant trip count; each pass: b += step (odd or even), c += b
            w.clear(a);
            w.go(a);
            w.rep('+', 9 + (k * 5 + m) % 56);
            w.e("[-");
            w.go(b);
            w.rep(if i.flag { '-' } else { '+' }, 1 + m % 4);
            w.clear(d);
            w.copy(b, c, d);
            w.go(a);
            w.e("]");
        }
        K_ARRAY => {
            // k consecutive non-zero constants followed by a cleared cell, then a loop that works on
            // each element and moves on: `[ body > ]` (the loop shifts the pointer by one per pass).
            // The generator knows where it ends, so the text can return home afterwards.
            let len = 2 + (k % 5) as i64;
            let start = home + n; // beyond the cells the other idioms use
            for j in 0..=len {
                w.clear(start + j);
            }
            for j in 0..len {
                w.addk(start + j, 1 + ((m as i64 + j) % 4));
            }
            w.go(start);
            w.e("[");
            match m % 6 {
                0 => w.e("."),
                1 => w.e("+."),
                2 => w.e("-"),
                3 => {
                    // accumulate into a cell left of the array
                    w.e("[-");
                    let back = w.cur;
                    w.go(a);
                    w.e("+");
                    w.go(back);
                    w.e("]");
                }
                4 => w.e("<+>"),
                _ => w.e(",."),
            }
            w.e(">]");
            // every pass moved right by one; the loop ends on the cleared cell after the array
            w.cur = start + len;
            if i.flag {
                // walk back over the (possibly modified) elements with a leftward scan; it stops at the
                // first zero element, so the pointer is unknown afterwards (like a scan idiom)
                w.e("<[<]");
                w.cur = start;
            }
        }
        K_ACCUMIN => {
            // "read until zero": while x { use x (read-only copy, or move); x = next input byte }.
            // The input cell is read in the body *before* it is overwritten, the loop only writes it through `,`.
            match m % 3 {
                0 => {
                    // x is the loop condition itself
                    if i.flag {
                        w.go(a);
                        w.e(",");
                    }
                    w.go(a);
                    w.e("[");
                    w.clear(c);
                    w.copy(a, b, c);
                    if k % 2 == 0 {
                        w.go(b);
                        w.e(".");
                    }
                    w.go(a);
                    w.e(",]");
                }
                1 => {
                    // counted loop; another cell x is accumulated and then re-read from input
                    w.go(a);
                    w.e("[");
                    w.clear(c);
                    w.copy(d, b, c);
                    w.go(d);
                    w.e(",");
                    w.go(a);
                    w.e("-]");
                }
                _ => {
                    // destructive variant: move x away, then read it again
                    w.go(a);
                    w.e("[[-");
                    w.go(b);
                    w.rep('+', 1 + k % 3);
                    w.go(a);
                    w.e("]");
                    w.e(",]");
                }
            }
        }
        K_RESCALE => {
            // while x { x = f*x + c (through scratch cell b, cleared first); count in d; optionally print }
            // An even factor drives x to 0 within `width` rounds (feasible canonically at 8 and 16 bit);
            // with an odd factor the loop ends only if it happens to hit 0.
            let f = [2u64, 2, 4, 2, 6, 3, 2, 5][(k % 8) as usize];
            if i.flag {
                w.go(a);
                w.rep('+', 1 + m % 3);
            }
            w.go(a);
            w.e("[");
            w.clear(b);
            w.go(a);
            w.e("[-");
            w.go(b);
            w.rep('+', f);
            w.go(a);
            w.e("]");
            w.go(b);
            match m % 4 {
                0 => {}
                1 => w.e("++"),
                2 => w.e("--"),
                _ => w.rep('+', f),
            }
            w.e("[-");
            w.go(a);
            w.e("+");
            w.go(b);
            w.e("]");
            w.go(d);
            w.e("+");
            if m % 3 == 0 {
                w.e(".");
            }
            w.go(a);
            w.e("]");
        }
        K_DIVCAND => {
            w.go(a);
            let cand = DIV_CANDIDATES[(k as usize * 4 + m as usize) % DIV_CANDIDATES.len()];
            w.e(cand);
            // candidates containing unbalanced moves leave the pointer unknown
        }
        K_COUNTED => {
            w.go(a);
            w.e("[");
            w.go(home);
            render_nodes(&i.body, n, w);
            w.go(a);
            w.rep('-', if i.flag { 1 + k % 2 } else { 1 });
            w.e("]");
        }
        K_IFLIKE => {
            w.go(a);
            w.e("[");
            w.go(home);
            render_nodes(&i.body, n, w);
            w.go(a);
            w.e("[-]]");
        }
        K_WHILE => {
            w.go(a);
            w.e("[");
            w.go(home);
            render_nodes(&i.body, n, w);
            w.go(a);
            w.e("]");
        }
        _ => {}
    }
    w.go(home);
}

#[derive(Clone, Debug)]
pub struct StructProg {
    pub n: u8,
    /// per cell: 0 nothing, 1 ',', 2.. '+' * (k)
    pub init: Vec<(u8, u8)>,
    pub body: Vec<Node>,
    pub print_all: bool,
}

impl StructProg {
    pub fn render(&self) -> String {
        let n = self.n as i64;
        let mut w = W::new();
        for (i, &(kind, k)) in self.init.iter().enumerate().take(n as usize) {
            match kind % 4 {
                1 => {
                    w.go(i as i64);
                    w.e(",")
                }
                2 => {
                    w.go(i as i64);
                    w.rep('+', k as u64 % 7)
                }
                3 => {
                    // a larger compile-time constant (trip counts beyond the small ones)
                    w.go(i as i64);
                    w.rep('+', k as u64)
                }
                _ => {}
            }
        }
        w.go(0);
        render_nodes(&self.body, n, &mut w);
        w.go(0);
        if self.print_all {
            for i in 0..n {
                w.go(i);
                w.e(".");
            }
        }
        w.s
    }
}

/// Sorted table: index shrinks towards the simplest idioms.
fn kind_table(div: bool) -> Vec<u8> {
    let mut t = vec![
        K_ADD, K_ADD, K_OUT, K_IN, K_CLEAR, K_MOVEADD, K_MOVEADD, K_MOVEADD, K_STEPLOOP, K_COPY, K_COPY, K_DOUBLING, K_MUL, K_GEOMETRIC, K_GEOMETRIC, K_TRIANGULAR, K_TRIANGULAR,
        K_OUTLOOP, K_INLOOP, K_SCAN, K_NONUNIT, K_REFILL, K_IFELSE, K_COUNTUP, K_SUBTRACT, K_SQUARE, K_SWAP, K_IOCHAIN, K_IOCHAIN, K_CONSTLOOP, K_ARRAY, K_ARRAY, K_ACCUMIN, K_ACCUMIN, K_RESCALE, K_RESCALE,
    ];
    if div {
        for _ in 0..6 {
            t.push(K_DIVCAND)
        }
    }
    t
}

fn leaf_idiom(div: bool) -> impl Strategy<Value = Node> {
    let table = kind_table(div);
    (0..table.len(), any::<[u8; 4]>(), 0u8..12, 0u8..12, any::<bool>()).prop_map(move |(ki, sel, k, m, flag)| Node::Idiom(Idiom { kind: table[ki], sel, k, m, flag, body: vec![] }))
}

fn raw_node() -> impl Strategy<Value = Node> {
    vec(0u8..6, 1..6).prop_map(Node::Raw)
}

pub fn node_strategy(div: bool, depth: u32) -> BoxedStrategy<Node> {
    let leaf = prop_oneof![10 => leaf_idiom(div), 1 => raw_node()];
    leaf.prop_recursive(depth, 24, 4, |inner| {
        (prop_oneof![3 => Just(K_COUNTED), 2 => Just(K_IFLIKE), 1 => Just(K_WHILE)], any::<[u8; 4]>(), 0u8..4, any::<bool>(), vec(inner, 1..4))
            .prop_map(|(kind, sel, k, flag, body)| Node::Idiom(Idiom { kind, sel, k, m: 0, flag, body }))
    })
    .boxed()
}

pub fn struct_prog(div: bool) -> impl Strategy<Value = StructProg> {
    (4u8..11, vec((prop_oneof![6 => 0u8..3, 1 => Just(3u8)], 0u8..40), 10), vec(node_strategy(div, 3), 1..12), prop_oneof![9 => Just(true), 1 => Just(false)]).prop_map(|(n, init, body, print_all)| StructProg { n, init, body, print_all })
}

// ---------------------------------------------------------------- G-wide

#[derive(Clone, Debug)]
pub struct Upd {
    pub a_off: u8,
    pub b_off: u8,
    pub f: u8,
    pub k: u8,
    pub clear: bool,
}

#[derive(Clone, Debug)]
pub struct WideProg {
    pub n: u8,
    pub init: Vec<(u8, u8)>,
    pub cnt_in: bool,
    pub cnt_k: u8,
    pub looped: bool,
    pub start: u8,
    pub upd: Vec<Upd>,
    pub nupd_sel: u8,
    pub out_in_loop: Option<u8>,
    /// constants built by foldable multiply chains (G-bigconst): (cell, base, squarings)
    pub big: Option<(u8, u8, u8)>,
}

impl WideProg {
    pub fn render(&self) -> String {
        let n = self.n as i64;
        let (t0, t1, cnt, t2) = (2 * n, 2 * n + 1, 2 * n + 2, 2 * n + 3);
        let mut w = W::new();
        for i in 0..n {
            let (kind, k) = self.init[i as usize % self.init.len()];
            // mostly small values: the canonical run costs a step per unit of every cell value
            match kind % 10 {
                0 | 1 => {
                    w.go(i);
                    w.e(",")
                }
                2 | 3 | 4 => w.addk(i, 1),
                5 => w.addk(i, 1 + (k % 4) as i64),
                _ => {}
            }
        }
        if let Some((c, base, sq)) = self.big {
            // a constant the optimiser folds at compile time: c = base; c = c*c (sq times)
            let c = (c as i64) % n;
            w.clear(c);
            w.addk(c, 2 + (base % 3) as i64);
            for _ in 0..(1 + sq % 6) {
                w.mul(c, c, n + c, t0, t1);
                w.clear(c);
                w.mov(n + c, c);
            }
        }
        w.go(cnt);
        if self.cnt_in {
            w.e(",")
        } else {
            w.addk(cnt, 1 + (self.cnt_k % 3) as i64)
        }
        if self.looped {
            w.go(cnt);
            w.e("[");
        }
        let mut updated = vec![];
        // a cycle through all cells (every cell updated from its successors) makes one
        // strongly connected component of n simultaneously live values
        let nupd = if self.nupd_sel < 170 { n as usize } else { 1 + (self.nupd_sel as usize % n as usize) };
        for (j, u) in self.upd.iter().cycle().enumerate().take(nupd.min(n as usize)) {
            let i = (self.start as i64 + j as i64) % n;
            updated.push((i, u.clear));
            let a = (i + 1 + (u.a_off % 3) as i64) % n;
            let b = (i + 1 + (u.b_off % 4) as i64) % n;
            let k = 1 + (u.k % 3) as i64;
            let c3 = (i + 2 + ((u.a_off + u.b_off) % 5) as i64) % n;
            match u.f % 16 {
                // 12..15: negated terms; with `clear == false` these become in-place subtractions
                12 => w.mul_signed(a, b, n + i, t0, t1, true),
                13 => {
                    // -a - b - k (a negative constant minus cells)
                    w.copy_signed(a, n + i, t1, true);
                    w.copy_signed(b, n + i, t1, true);
                    w.addk(n + i, -k);
                }
                14 => {
                    // a*b - b*c
                    w.mul(a, b, n + i, t0, t1);
                    w.mul_signed(b, c3, n + i, t0, t1, true);
                }
                15 => {
                    // -k - a*a
                    w.addk(n + i, -k);
                    w.mul_signed(a, a, n + i, t0, t1, true);
                }
                9 => w.mul3(a, b, c3, n + i, t0, t1, t2),
                10 => {
                    // a*a*b + k
                    w.mul3(a, a, b, n + i, t0, t1, t2);
                    w.addk(n + i, k);
                }
                11 => {
                    // a*b*c - b
                    w.mul3(a, b, c3, n + i, t0, t1, t2);
                    w.copy_signed(b, n + i, t1, true);
                }
                0 => w.copy(a, n + i, t1),
                1 => w.mul(a, b, n + i, t0, t1),
                2 => {
                    w.mul(a, b, n + i, t0, t1);
                    w.addk(n + i, k);
                }
                3 => {
                    w.copy(a, n + i, t1);
                    w.copy(b, n + i, t1);
                }
                4 => {
                    w.copy(a, n + i, t1);
                    w.addk(n + i, -k);
                }
                5 => {
                    w.mul(a, a, n + i, t0, t1);
                    w.copy(b, n + i, t1);
                }
                6 => {
                    // a - b
                    w.copy(a, n + i, t1);
                    w.copy_signed(b, n + i, t1, true);
                }
                7 => {
                    // k - a*b
                    w.addk(n + i, k);
                    w.mul_signed(a, b, n + i, t0, t1, true);
                }
                _ => {
                    // a*b - a
                    w.mul(a, b, n + i, t0, t1);
                    w.copy_signed(a, n + i, t1, true);
                }
            }
        }
        for &(i, clear) in &updated {
            if clear {
                w.clear(i);
            }
            w.mov(n + i, i);
        }
        if let Some(o) = self.out_in_loop {
            w.go((o as i64) % n);
            w.e(".");
        }
        if self.looped {
            w.go(cnt);
            w.e("-]");
        }
        for i in 0..n {
            w.go(i);
            w.e(".");
        }
        w.s
    }
}

pub fn wide_prog(big: bool) -> impl Strategy<Value = WideProg> {
    // copies and sums are cheap in canonical steps; products are rarer
    const F_TABLE: [u8; 20] = [0, 0, 0, 0, 0, 0, 3, 3, 3, 4, 4, 6, 6, 1, 2, 5, 7, 8, 9, 10];
    let upd = (prop_oneof![3 => Just(0u8), 2 => 0u8..3], 0u8..4, prop_oneof![16 => (0usize..20).prop_map(|i| F_TABLE[i]), 2 => Just(11u8), 3 => 12u8..16], 0u8..3, prop_oneof![2 => Just(true), 1 => Just(false)]).prop_map(|(a_off, b_off, f, k, clear)| Upd { a_off, b_off, f, k, clear });
    let bigs = if big { (0u8..20, 0u8..3, 0u8..6).prop_map(Some).boxed() } else { Just(None).boxed() };
    (prop_oneof![1 => 6u8..12, 1 => 12u8..18, 2 => 18u8..28], vec((0u8..10, 0u8..4), 20), any::<bool>(), 0u8..3, prop_oneof![9 => Just(true), 1 => Just(false)], 0u8..20, (vec(upd, 1..21), any::<u8>()), proptest::option::weighted(0.3, 0u8..20), bigs)
        .prop_map(|(n, init, cnt_in, cnt_k, looped, start, (upd, nupd_sel), out_in_loop, big)| WideProg { n, init, cnt_in, cnt_k, looped, start, upd, nupd_sel, out_in_loop, big })
}

// ---------------------------------------------------------------- G-roam

#[derive(Clone, Debug)]
pub struct Seg {
    pub kind: u8,
    pub k: u8,
    pub right: bool,
    pub cnt: u8,
    pub m: u8,
    pub from_input: bool,
}

#[derive(Clone, Debug)]
pub struct RoamProg {
    pub segs: Vec<Seg>,
}

impl RoamProg {
    pub fn render(&self) -> String {
        let mut w = W::new();
        for s in &self.segs {
            let k = 1 + s.k as u64;
            let (f, b) = if s.right { ('>', '<') } else { ('<', '>') };
            match s.kind % 8 {
                0 => {
                    // carry a counter along k cells per step leaving breadcrumbs
                    if s.from_input {
                        w.e(",")
                    } else {
                        w.rep('+', 1 + s.cnt as u64)
                    }
                    w.e("[-[-");
                    w.rep(f, k);
                    w.e("+");
                    w.rep(b, k);
                    w.e("]+");
                    w.rep(f, k);
                    w.e("]");
                }
                1 => {
                    // scan back over breadcrumbs
                    w.rep(b, k);
                    w.e("[");
                    w.rep(b, k);
                    w.e("]");
                }
                2 => {
                    // scan forward stride k until zero
                    w.e("[");
                    w.rep(f, k);
                    w.e("]");
                }
                3 => {
                    // plain far move + write + output
                    w.rep(f, k * (1 + s.m as u64) * if s.cnt % 3 == 0 { 20 } else { 1 });
                    w.e("+.");
                }
                4 => {
                    // outer n times { move k, mark }
                    w.rep('+', 1 + (s.cnt as u64 % 12));
                    w.e("[-[-");
                    w.rep(f, k);
                    w.e("+");
                    w.rep(b, k);
                    w.e("]");
                    w.rep(f, k);
                    w.e(".]");
                }
                5 => {
                    // output nearby cells (revisit)
                    for j in 0..(1 + s.m % 4) {
                        let ch = if (s.cnt >> j) & 1 == 1 { '<' } else { '>' };
                        w.rep(ch, (s.m as u64 * (j as u64 + 1)) % (2 * k));
                        w.e(".");
                    }
                }
                6 => {
                    // lay a trail of m marks, stride k, then come back scanning
                    let m = 1 + (s.m as u64 % 30);
                    for _ in 0..m {
                        w.e("+");
                        w.rep(f, k);
                    }
                    w.rep(b, k);
                    w.e("[");
                    w.e(".");
                    w.rep(b, k);
                    w.e("]");
                }
                _ => {
                    // carry a counter with a long stride, leaving breadcrumbs (reaches > 1000 cells)
                    let stride = k * (2 + s.m as u64 % 12);
                    w.rep('+', 4 + s.cnt as u64);
                    w.e("[-[-");
                    w.rep(f, stride);
                    w.e("+");
                    w.rep(b, stride);
                    w.e("]+");
                    if s.from_input {
                        w.e(".");
                    }
                    w.rep(f, stride);
                    w.e("]");
                }
            }
        }
        w.s
    }
}

pub fn roam_prog() -> impl Strategy<Value = RoamProg> {
    let seg = (0u8..8, prop_oneof![3 => 0u8..6, 1 => 0u8..40], any::<bool>(), 0u8..30, 0u8..50, prop_oneof![1 => Just(true), 2 => Just(false)]).prop_map(|(kind, k, right, cnt, m, from_input)| Seg { kind, k, right, cnt, m, from_input });
    vec(seg, 1..7).prop_map(|segs| RoamProg { segs })
}

// ---------------------------------------------------------------- G-deep

#[derive(Clone, Debug)]
pub struct DeepProg {
    pub depth: u16,
    pub style: u8,
    pub out_every: u8,
}

impl DeepProg {
    pub fn render(&self) -> String {
        let d = self.depth as usize;
        let mut s = String::new();
        match self.style % 4 {
            0 => {
                s.push('+');
                for _ in 0..d {
                    s.push('[')
                }
                s.push('-');
                for _ in 0..d {
                    s.push(']')
                }
                s.push('.');
            }
            1 => {
                s.push('+');
                for i in 0..d {
                    s.push_str("[>+");
                    if self.out_every > 0 && i % (self.out_every as usize) == 0 {
                        s.push('.')
                    }
                }
                s.push_str("[-]");
                for _ in 0..d {
                    s.push_str("<-]")
                }
                s.push('.');
            }
            3 => {
                // a nest of input-conditioned loops that each run at most once (`>,[ ... [-]]<`), with a store in
                // the innermost body to a cell no enclosing block reads, printed at the end
                for _ in 0..d {
                    s.push_str(">,[")
                }
                for _ in 0..d {
                    s.push('<')
                }
                s.push_str("[-]+++");
                for _ in 0..d {
                    s.push('>')
                }
                s.push_str("[-]]");
                for _ in 1..d {
                    s.push_str("<[-]]")
                }
                s.push_str("<.");
            }
            _ => {
                // skipped deep nest followed by an executed one
                for _ in 0..d {
                    s.push('[')
                }
                s.push('+');
                for _ in 0..d {
                    s.push(']')
                }
                s.push_str(",");
                for _ in 0..d {
                    s.push_str("[>")
                }
                s.push_str("+.");
                for _ in 0..d {
                    s.push_str("<[-]]")
                }
            }
        }
        s
    }
}

pub fn deep_prog(max_depth: u16) -> impl Strategy<Value = DeepProg> {
    (50u16..max_depth, 0u8..4, 0u8..9).prop_map(|(depth, style, out_every)| DeepProg { depth, style, out_every })
}

// ---------------------------------------------------------------- G-hibits

/// Programs that make the *upper* bits of wide cells observable although `.` prints only the low
/// byte: a polynomial of the inputs is computed with multiplication loops (constants up to 300,
/// i.e. beyond the signed and unsigned 8-bit immediate ranges), then the value the generator knows
/// it must have (it fixes the input bytes itself) is subtracted with that many `-`, which works at
/// every width, and a zero test prints whether anything is left. Canonically nothing ever is.
#[derive(Clone, Debug)]
pub struct HiBitsProg {
    /// the input bytes the program is paired with (small, so that the canonical run stays short)
    pub inputs: Vec<u8>,
    /// terms coef * product of selected inputs; `sel` bit i selects input i
    pub terms: Vec<(u8, u16, bool)>,
    pub print_low: bool,
    /// optional quotient stage: an extra input byte q*k is divided by the odd constant k with an
    /// odd-step loop (the optimiser multiplies by the 2-adic inverse of k, a full-width constant);
    /// (k selector, q, coefficient)
    pub div: Option<(u8, u8, u8)>,
}

impl HiBitsProg {
    pub fn render(&self) -> String {
        let m = self.inputs.len() as i64;
        // cells: 0..m inputs, acc = m, t0 = m+1, t1 = m+2, t2 = m+3, flag = m+4, dividend = m+5, quotient = m+6
        let (acc, t0, t1, t2, flag) = (m, m + 1, m + 2, m + 3, m + 4);
        let mut w = W::new();
        for i in 0..m {
            w.go(i);
            w.e(",");
        }
        let mut expected: i64 = 0;
        if let Some((ksel, q, coef)) = self.div {
            let k = [3u64, 5, 7, 9, 11, 13][(ksel % 6) as usize];
            let q = 1 + (q % 12) as i64;
            let coef = 1 + (coef % 5) as i64;
            // the dividend q*k arrives as the next input byte (see input()); quotient = dividend / k
            w.go(m + 5);
            w.e(",[");
            w.rep('-', k);
            w.go(m + 6);
            w.e("+");
            w.go(m + 5);
            w.e("]");
            // acc += coef * quotient
            w.go(m + 6);
            w.e("[-");
            w.go(acc);
            w.rep('+', coef as u64);
            w.go(m + 6);
            w.e("]");
            expected += coef * q;
        }
        for &(sel, coef, neg) in &self.terms {
            let cells: Vec<i64> = (0..m).filter(|i| sel >> i & 1 == 1).collect();
            let coef = 1 + (coef % 300) as i64;
            let prod: i64 = cells.iter().map(|&c| self.inputs[c as usize] as i64).product::<i64>() * coef;
            if prod > 6000 {
                continue; // keeps the text and the canonical run short
            }
            expected += if neg { -prod } else { prod };
            let ch = if neg { '-' } else { '+' };
            match cells.len() {
                0 => {
                    w.go(acc);
                    w.rep(ch, coef as u64);
                }
                1 => {
                    // acc += coef * a  (a restored through t0)
                    w.go(cells[0]);
                    w.e("[-");
                    w.go(acc);
                    w.rep(ch, coef as u64);
                    w.go(t0);
                    w.e("+");
                    w.go(cells[0]);
                    w.e("]");
                    w.mov(t0, cells[0]);
                }
                _ => {
                    // t2 = a*b (inputs preserved), acc += coef * t2
                    w.mul(cells[0], cells[1], t2, t0, t1);
                    w.go(t2);
                    w.e("[-");
                    w.go(acc);
                    w.rep(ch, coef as u64);
                    w.go(t2);
                    w.e("]");
                }
            }
        }
        w.go(acc);
        if self.print_low {
            w.e(".");
        }
        // take the known value out again; what is left must be zero at every width
        w.rep(if expected >= 0 { '-' } else { '+' }, expected.unsigned_abs());
        w.e("[[-]");
        w.go(flag);
        w.e("+");
        w.go(acc);
        w.e("]");
        w.go(flag);
        w.e(".");
        w.s
    }
}

impl HiBitsProg {
    /// The input stream the program is paired with: its inputs, then the dividend of the quotient stage.
    pub fn input(&self) -> Vec<u8> {
        let mut v = self.inputs.clone();
        if let Some((ksel, q, _)) = self.div {
            let k = [3u64, 5, 7, 9, 11, 13][(ksel % 6) as usize];
            v.push(((1 + (q % 12) as u64) * k) as u8);
        }
        v
    }
}

pub fn hibits_prog() -> impl Strategy<Value = HiBitsProg> {
    (vec(0u8..13, 1..4), vec((prop_oneof![4 => 1u8..8, 1 => Just(0u8)], prop_oneof![2 => 0u16..300, 1 => 120u16..260, 2 => 0u16..3], any::<bool>()), 1..5), any::<bool>(), proptest::option::weighted(0.5, (0u8..6, 0u8..12, 0u8..5)))
        .prop_map(|(inputs, terms, print_low, div)| HiBitsProg { inputs, terms, print_low, div })
}

// ---------------------------------------------------------------- G-shl

/// One input byte multiplied up by a chain of small constant factors (mostly 2), one cell to the
/// right per step, followed by a zero test of the result: values whose *low* bits are all zero
/// while the cell is not (a * 2^32 at 64 bit), and multipliers 2^k beyond the 32-bit immediates.
/// The canonical run costs about 3 * value steps, so long chains end with fate `Unknown`
/// (C03 judges those by its differential vote); short ones are judged by the reference.
#[derive(Clone, Debug)]
pub struct ShlProg {
    pub a: u8,
    pub factors: Vec<u8>,
    /// (position in the chain, addend): makes lower bits non-zero again
    pub mid: Option<(u8, u8)>,
    pub print_low: bool,
    pub delta: i8,
    pub test: u8,
}

impl ShlProg {
    pub fn render(&self) -> String {
        let mut w = W::new();
        w.e(",");
        let mut pos = 0i64;
        for (i, f) in self.factors.iter().enumerate() {
            if let Some((at, add)) = self.mid {
                if at as usize % self.factors.len() == i {
                    w.rep('+', 1 + (add % 3) as u64);
                }
            }
            let f = [2u64, 2, 2, 2, 4, 3, 5, 6][(*f % 8) as usize];
            w.e("[->");
            w.rep('+', f);
            w.e("<]>");
            pos += 1;
        }
        w.cur = pos;
        if self.print_low {
            w.e(".");
        }
        let d = self.delta.clamp(-1, 1);
        w.rep(if d < 0 { '-' } else { '+' }, d.unsigned_abs() as u64);
        match self.test % 3 {
            0 => w.e("[[-]>+<]>."),
            1 => w.e(">+<[[-]>-<]>."),
            _ => w.e("[>.<[-]]>+."),
        }
        w.s
    }
    pub fn input(&self) -> Vec<u8> {
        vec![1 + self.a % 9]
    }
}

pub fn shl_prog() -> impl Strategy<Value = ShlProg> {
    (any::<u8>(), prop_oneof![2 => vec(0u8..4, 0..20), 3 => vec(prop_oneof![6 => 0u8..4, 1 => 4u8..8], 20..64)], proptest::option::weighted(0.3, (any::<u8>(), any::<u8>())), any::<bool>(), prop_oneof![4 => Just(0i8), 1 => Just(-1i8), 1 => Just(1i8)], 0u8..3)
        .prop_map(|(a, factors, mid, print_low, delta, test)| ShlProg { a, factors, mid, print_low, delta, test })
}

// ---------------------------------------------------------------- G-chain

/// One round body repeated `rounds` times over a handful of cells whose start values come from
/// the input (so nothing folds to a constant): the shape on which symbolic substitution in the
/// optimiser can multiply out. Used by C13 (growth of the compiled forms with the round count).
#[derive(Clone, Debug)]
pub struct ChainProg {
    /// which of the six data cells are read from input (bit set), the others get small constants
    pub from_input: u8,
    /// template (0..=6) or, for 7.., the random body `ops`
    pub template: u8,
    pub sel: [u8; 4],
    /// (kind, a, b, c, k) for the random body
    pub ops: Vec<(u8, u8, u8, u8, u8)>,
    pub rounds: u8,
    pub print_each_round: bool,
}

impl ChainProg {
    pub fn rounds(&self) -> u32 {
        4 + (self.rounds as u32 % 45)
    }
    /// (prefix, body of one round, suffix)
    pub fn parts(&self) -> (String, String, String) {
        const N: i64 = 6;
        let (t0, t1, t2) = (N, N + 1, N + 2);
        let mut w = W::new();
        for i in 0..N {
            w.go(i);
            if self.from_input >> i & 1 == 1 || i == (self.sel[0] as i64 % N) {
                w.e(",")
            } else {
                w.addk(i, 1 + (i % 3))
            }
        }
        w.go(0);
        let prefix = std::mem::take(&mut w.s);
        let c = pick4(self.sel, N);
        let (p, q, u, v) = (c[0], c[1], c[2], c[3]);
        match self.template % 10 {
            0 => {
                // p = p*p through two copies in different cells
                w.clear(q);
                w.clear(u);
                w.copy(p, q, t1);
                w.copy(p, u, t1);
                w.clear(p);
                w.mul(q, u, p, t0, t1);
            }
            1 => {
                // p = (p+u)*(p+v)
                w.clear(t2);
                w.copy(p, t2, t1);
                w.copy(u, t2, t1);
                w.copy(v, p, t1);
                w.clear(q);
                w.mul(p, t2, q, t0, t1);
                w.clear(p);
                w.mov(q, p);
                w.clear(t2);
            }
            2 => {
                // p = p*q ; q = p*q (degrees grow like Fibonacci numbers)
                w.clear(u);
                w.mul(p, q, u, t0, t1);
                w.clear(p);
                w.mov(u, p);
                w.mul(p, q, u, t0, t1);
                w.clear(q);
                w.mov(u, q);
            }
            3 => {
                // p = p*p*p through three copies
                w.clear(q);
                w.clear(u);
                w.clear(v);
                w.copy(p, q, t1);
                w.copy(p, u, t1);
                w.copy(p, v, t1);
                w.clear(p);
                w.mul3(q, u, v, p, t0, t1, t2);
            }
            4 => {
                // p = p*p + p
                w.clear(q);
                w.copy(p, q, t1);
                w.mul(q, q, p, t0, t1);
            }
            5 => {
                // p = p*p in place (the same cell twice)
                w.clear(q);
                w.mul(p, p, q, t0, t1);
                w.clear(p);
                w.mov(q, p);
            }
            6 => {
                // p = p*q + u ; q = q + p
                w.clear(v);
                w.mul(p, q, v, t0, t1);
                w.copy(u, v, t1);
                w.clear(p);
                w.mov(v, p);
                w.copy(p, q, t1);
            }
            _ => {
                for &(kind, a, b, d, k) in &self.ops {
                    let (a, b, d) = ((a as i64) % N, (b as i64) % N, (d as i64) % N);
                    match kind % 7 {
                        0 => {
                            if a != b {
                                w.copy(a, b, t1)
                            }
                        }
                        1 => {
                            if a != b {
                                w.mov(a, b)
                            }
                        }
                        2 | 3 => {
                            if d != a && d != b {
                                w.mul(a, b, d, t0, t1)
                            }
                        }
                        4 => w.clear(a),
                        5 => w.addk(a, 1 + (k % 3) as i64),
                        _ => {
                            if a != b {
                                w.clear(b);
                                w.copy(a, b, t1)
                            }
                        }
                    }
                }
            }
        }
        if self.print_each_round {
            w.go(p);
            w.e(".");
        }
        w.go(0);
        let body = std::mem::take(&mut w.s);
        for i in 0..N {
            w.go(i);
            w.e(".");
        }
        (prefix, body, w.s)
    }
    pub fn render(&self) -> String {
        let (a, b, c) = self.parts();
        format!("{a}{}{c}", b.repeat(self.rounds() as usize))
    }
}

pub fn chain_prog() -> impl Strategy<Value = ChainProg> {
    (any::<u8>(), prop_oneof![3 => 0u8..7, 2 => 7u8..10], any::<[u8; 4]>(), vec((0u8..7, 0u8..6, 0u8..6, 0u8..6, 0u8..3), 2..7), any::<u8>(), proptest::bool::weighted(0.15))
        .prop_map(|(from_input, template, sel, ops, rounds, print_each_round)| ChainProg { from_input, template, sel, ops, rounds, print_each_round })
}

// ---------------------------------------------------------------- union

#[derive(Clone, Debug)]
pub enum ProgAst {
    Raw(Vec<u8>),
    Struct(StructProg),
    Wide(WideProg),
    Roam(RoamProg),
    Deep(DeepProg),
    Text(String),
    /// any program with non-command characters spliced in at character positions
    Commented(Box<ProgAst>, Vec<(u16, char)>),
    HiBits(HiBitsProg),
    Chain(ChainProg),
    Shl(ShlProg),
}

impl ProgAst {
    pub fn render(&self) -> String {
        match self {
            ProgAst::Raw(t) => render_raw(t),
            ProgAst::Struct(p) => p.render(),
            ProgAst::Wide(p) => p.render(),
            ProgAst::Roam(p) => p.render(),
            ProgAst::Deep(p) => p.render(),
            ProgAst::Text(s) => s.clone(),
            ProgAst::HiBits(p) => p.render(),
            ProgAst::Chain(p) => p.render(),
            ProgAst::Shl(p) => p.render(),
            ProgAst::Commented(p, ins) => {
                let mut chars: Vec<char> = p.render().chars().collect();
                for (pos, ch) in ins {
                    let at = (*pos as usize * (chars.len() + 1)) >> 16;
                    chars.insert(at, *ch);
                }
                chars.into_iter().collect()
            }
        }
    }
    pub fn family(&self) -> &'static str {
        match self {
            ProgAst::Raw(_) => "raw",
            ProgAst::Struct(_) => "struct",
            ProgAst::Wide(p) => {
                if p.big.is_some() {
                    "bigconst"
                } else {
                    "wide"
                }
            }
            ProgAst::Roam(_) => "roam",
            ProgAst::Deep(_) => "deep",
            ProgAst::Text(_) => "text",
            ProgAst::Commented(..) => "commented",
            ProgAst::HiBits(_) => "hibits",
            ProgAst::Chain(_) => "chain",
            ProgAst::Shl(_) => "shl",
        }
    }
    /// Some families fix the input stream they are paired with.
    pub fn fixed_input(&self) -> Option<Vec<u8>> {
        match self {
            ProgAst::HiBits(p) => Some(p.input()),
            ProgAst::Shl(p) => Some(p.input()),
            _ => None,
        }
    }
}

#[derive(Clone, Copy, Debug)]
pub struct Mix {
    pub raw: u32,
    pub strukt: u32,
    pub div: u32,
    pub wide: u32,
    pub big: u32,
    pub roam: u32,
    pub deep: u32,
    /// raw/structured programs with comment characters spliced in (incl. characters that truncate to commands)
    pub commented: u32,
    /// upper-bit observation programs (zero tests against a value the generator knows)
    pub hibits: u32,
}

pub fn prog(mix: Mix) -> BoxedStrategy<ProgAst> {
    let mut v: Vec<(u32, BoxedStrategy<ProgAst>)> = vec![];
    if mix.raw > 0 {
        v.push((mix.raw, raw_tokens(4, 96).prop_map(ProgAst::Raw).boxed()))
    }
    if mix.strukt > 0 {
        v.push((mix.strukt, struct_prog(false).prop_map(ProgAst::Struct).boxed()))
    }
    if mix.div > 0 {
        v.push((mix.div, struct_prog(true).prop_map(ProgAst::Struct).boxed()))
    }
    if mix.wide > 0 {
        v.push((mix.wide, wide_prog(false).prop_map(ProgAst::Wide).boxed()))
    }
    if mix.big > 0 {
        v.push((mix.big, wide_prog(true).prop_map(ProgAst::Wide).boxed()))
    }
    if mix.roam > 0 {
        v.push((mix.roam, roam_prog().prop_map(ProgAst::Roam).boxed()))
    }
    if mix.deep > 0 {
        v.push((mix.deep, deep_prog(400).prop_map(ProgAst::Deep).boxed()))
    }
    if mix.hibits > 0 {
        v.push((mix.hibits, hibits_prog().prop_map(ProgAst::HiBits).boxed()));
        // the multiply-up chains ride on the same weight (half as many)
        v.push(((mix.hibits + 1) / 2, shl_prog().prop_map(ProgAst::Shl).boxed()))
    }
    if mix.commented > 0 {
        let inner = prop_oneof![raw_tokens(4, 60).prop_map(ProgAst::Raw), struct_prog(false).prop_map(ProgAst::Struct)];
        v.push((mix.commented, (inner, vec((any::<u16>(), comment_char()), 1..10)).prop_map(|(p, ins)| ProgAst::Commented(Box::new(p), ins)).boxed()))
    }
    proptest::strategy::Union::new_weighted(v).boxed()
}

/// Non-command characters, including those a byte- or truncation-based scanner would confuse
/// with commands: same low byte (U+012B for '+'), same low 7 bits (U+00AB), command byte in
/// the second byte (U+2B00), fullwidth forms (U+FF0B), other planes, plus arbitrary scalar values.
pub fn comment_char() -> BoxedStrategy<char> {
    const PLAIN: &[char] = &[' ', 'a', '\n', '#', '0', '\t', 'é', 'ß', '☃', '→', '𝄞', '🙂', '\u{0}', '\u{feff}', '\u{200b}'];
    let confusable = (0usize..8, 0u32..6, 1u32..0x10ff).prop_map(|(c, how, k)| {
        let b = "+-<>.,[]".as_bytes()[c] as u32;
        let cp = match how {
            0 => b + 0x100 * k,
            1 => b | 0x80,
            2 => (b << 8) | (k & 0xff),
            3 => 0xff00 + (b - 0x20),
            4 => b + 0x10000 * (1 + k % 16),
            _ => (b << 16 | k) & 0x10ffff,
        };
        char::from_u32(cp).filter(|ch| !"+-<>.,[]".contains(*ch)).unwrap_or('\u{12b}')
    });
    prop_oneof![6 => (0..PLAIN.len()).prop_map(|i| PLAIN[i]), 3 => confusable, 1 => any::<char>().prop_filter("command", |ch| !"+-<>.,[]".contains(*ch))].boxed()
}

/// Input streams: length 0..24, bytes biased to small/edge values; the empty
/// stream has its own share (end-of-input behaviour).
pub fn input_bytes() -> BoxedStrategy<Vec<u8>> {
    let byte = prop_oneof![4 => 0u8..4, 1 => Just(255u8), 1 => Just(128u8), 3 => any::<u8>()];
    // half of the streams hold only small values: multiplication idioms stay short
    prop_oneof![1 => Just(vec![]), 5 => vec(0u8..4, 0..24), 4 => vec(byte, 0..24)].boxed()
}

pub fn width() -> BoxedStrategy<u32> {
    prop_oneof![4 => Just(8u32), 2 => Just(16u32), 2 => Just(32u32), 2 => Just(64u32)].boxed()
}

/// Optimisation level: 0..3 plus representatives of "4+".
pub fn level_any() -> BoxedStrategy<u32> {
    prop_oneof![2 => 0u32..4, 1 => prop_oneof![Just(4u32), Just(5), Just(17), Just(u32::MAX)]].boxed()
}
