#!/bin/bash
# Sensitivity protocol (DESIGN section 9): run checks against a mutated copy of /repo without touching /repo or /verif.
#   tools/mutant.sh <name> <patch.diff> <ID> [<ID>...]      (patch is applied with `git apply` in a scratch worktree)
# Environment: SEEDS="0 1" (seeds to try, default "0"), TIER=quick|thorough
set -u
NAME=$1; PATCH=$(realpath "$2"); shift 2
D=/tmp/mut/$NAME
SEEDS=${SEEDS:-0}; TIER=${TIER:-quick}
rm -rf "$D"; git -C /repo worktree prune; mkdir -p /tmp/mut
git -C /repo worktree add -q --detach "$D" HEAD || exit 2
cleanup() { git -C /repo worktree remove --force "$D" 2>/dev/null; rm -rf "$D"; }
trap cleanup EXIT
git -C "$D" apply -3 "$PATCH" 2>/dev/null || git -C "$D" apply "$PATCH" || { echo "MUTANT $NAME: patch does not apply"; exit 2; }
export CARGO_NET_OFFLINE=true
cd /verif/harness
cargo build --quiet --release --config "paths=[\"$D\"]" --target-dir "$D/th" 2> "$D/build.log" || { echo "MUTANT $NAME: does not compile"; tail -20 "$D/build.log"; exit 2; }
cargo build --quiet --profile dbgassert --config "paths=[\"$D\"]" --target-dir "$D/th" 2>> "$D/build.log" || { echo "MUTANT $NAME: does not compile (dbgassert)"; exit 2; }
mkdir -p "$D/vout"; ln -s /verif/corpus "$D/vout/corpus"; cp /verif/known_findings.txt "$D/vout/"
for ID in "$@"; do
  if [ "$ID" = "C16" ]; then
    cargo build --quiet --release --offline --manifest-path "$D/Cargo.toml" --target-dir "$D/th/cli" --bin hpbf 2>> "$D/build.log" || { echo "MUTANT $NAME: CLI does not compile"; exit 2; }
  fi
  for S in $SEEDS; do
    START=$(date +%s)
    OUT=$(VERIF_DIR="$D/vout" "$D/th/release/hv" check "$ID" --tier "$TIER" --seed "$S" 2>&1); RC=$?
    END=$(date +%s)
    NV=$(echo "$OUT" | grep -c '^VIOLATION')
    echo "MUTANT $NAME check=$ID seed=$S exit=$RC violations=$NV time=$((END-START))s"
    echo "$OUT" | grep -A1 '^VIOLATION' | head -6 | cut -c1-260
    if [ -n "${KEEP_FINDINGS:-}" ] && [ -d "$D/vout/findings" ]; then mkdir -p "$KEEP_FINDINGS"; cp -r "$D/vout/findings/." "$KEEP_FINDINGS/"; fi
  done
done
