//! hv - verification harness for rolandbernard/hpbf (property-based testing and fuzzing).
//!
//!   hv check <ID> [--tier quick|thorough] [--seed N] [--shards K] [--replay FILE]
//!   hv shard <ID> <tier> <seed> <i> <n>        (internal)
//!   hv one <program> [input-bytes-comma-separated]   (debug: run everything on one program)


use hpbf_verif::engine::{DbgShare, DriveOpts, Property, Tier};
use hpbf_verif::progs::PP;
use hpbf_verif::{bf, child, engine, exec, galloc, props, refmodel, TIER_THOROUGH};

#[global_allocator]
static GA: galloc::G = galloc::G;

macro_rules! dispatch {
    ($id:expr, $p:ident, $body:expr) => {
        match $id {
            "C01" => {
                let $p = PP(props::c01::C01);
                $body
            }
            "C02" => {
                let $p = PP(props::c02::C02);
                $body
            }
            "C03" => {
                let $p = PP(props::c03::C03);
                $body
            }
            "C04" => {
                let $p = PP(props::c04::C04);
                $body
            }
            "C05" => {
                let $p = PP(props::c05::C05);
                $body
            }
            "C06" => {
                let $p = PP(props::c06::C06);
                $body
            }
            "C07" => {
                let $p = PP(props::c07::C07);
                $body
            }
            "C08" => {
                let $p = PP(props::c08::C08);
                $body
            }
            "C10" => {
                let $p = PP(props::c10::C10);
                $body
            }
            "C16" => {
                let $p = props::c16::C16;
                $body
            }
            "C17" => {
                let $p = PP(props::c17::C17);
                $body
            }
            "C09" => {
                let $p = props::c09::C09;
                $body
            }
            "C11" => {
                let $p = props::c11::C11;
                $body
            }
            "C12" => {
                let $p = props::c12::C12;
                $body
            }
            "C13" => {
                let $p = props::c13::C13;
                $body
            }
            "C14" => {
                let $p = props::c14::C14;
                $body
            }
            "C15" => {
                let $p = props::c15::C15;
                $body
            }
            "C18" => {
                let $p = props::c18::C18;
                $body
            }
            other => {
                eprintln!("unknown property id {other}");
                std::process::exit(2)
            }
        }
    };
}

fn dbg_share(id: &str) -> DbgShare {
    if std::env::var_os("VERIF_NO_DBG").is_some() {
        return DbgShare::None; // coverage measurement builds one profile only
    }
    match id {
        "C02" | "C13" => DbgShare::Both,
        "C14" | "C16" => DbgShare::None,
        _ => DbgShare::Quarter,
    }
}

fn verif_dir() -> std::path::PathBuf {
    if let Ok(d) = std::env::var("VERIF_DIR") {
        return d.into();
    }
    // <verif>/harness/target/<profile>/hv
    let me = std::env::current_exe().expect("current_exe");
    me.ancestors().nth(4).expect("verif dir").to_path_buf()
}

fn main() {
    let args: Vec<String> = std::env::args().collect();
    let cmd = args.get(1).map(|s| s.as_str()).unwrap_or("");
    match cmd {
        "shard" => {
            child::init();
            exec::install_quiet_panic_hook();
            let id = args[2].as_str();
            let tier = if args[3] == "quick" { Tier::Quick } else { Tier::Thorough };
            TIER_THOROUGH.store(tier == Tier::Thorough, std::sync::atomic::Ordering::Relaxed);
            let seed: u64 = args[4].parse().expect("seed");
            let shard: usize = args[5].parse().expect("shard");
            let shards: usize = args[6].parse().expect("shards");
            dispatch!(id, p, {
                let rep = engine::run_shard(&p, tier, seed, shard, shards);
                println!("{}", serde_json::to_string(&rep).unwrap());
            });
        }
        "check" => {
            let id = args.get(2).cloned().unwrap_or_default();
            let mut tier = match std::env::var("VERIF_TIER").as_deref() {
                Ok("thorough") => Tier::Thorough,
                _ => Tier::Quick,
            };
            let mut seed: u64 = std::env::var("VERIF_SEED").ok().and_then(|s| s.trim().parse::<i128>().ok()).map(|v| v as u64).unwrap_or(0);
            let mut shards = std::env::var("VERIF_SHARDS").ok().and_then(|s| s.parse().ok()).unwrap_or(16usize);
            let mut replay = None;
            let mut i = 3;
            while i < args.len() {
                match args[i].as_str() {
                    "--tier" => {
                        tier = if args.get(i + 1).map(|s| s.as_str()) == Some("thorough") { Tier::Thorough } else { Tier::Quick };
                        i += 1
                    }
                    "--seed" => {
                        seed = args[i + 1].parse::<i128>().expect("seed") as u64;
                        i += 1
                    }
                    "--shards" => {
                        shards = args[i + 1].parse().expect("shards");
                        i += 1
                    }
                    "--replay" => {
                        replay = Some(args[i + 1].clone());
                        i += 1
                    }
                    other => {
                        eprintln!("unknown option {other}");
                        std::process::exit(2)
                    }
                }
                i += 1;
            }
            child::init();
            exec::install_quiet_panic_hook();
            TIER_THOROUGH.store(tier == Tier::Thorough, std::sync::atomic::Ordering::Relaxed);
            let code = dispatch!(id.as_str(), p, {
                if let Some(f) = &replay {
                    engine::replay_file(&p, f)
                } else {
                    let share = if dbg_share(p.id()) == DbgShare::Both { DbgShare::Both } else { dbg_share(p.id()) };
                    engine::drive(&p, &DriveOpts { tier, seed, shards, verif_dir: verif_dir(), dbg_share: share })
                }
            });
            std::process::exit(code);
        }
        "probe-wide" => {
            // debug: distribution of generated wide programs
            use proptest::strategy::{Strategy, ValueTree};
            use proptest::test_runner::{Config, RngAlgorithm, TestRng, TestRunner};
            let n: usize = args[2].parse().unwrap();
            let mut runner = TestRunner::new_with_rng(Config::default(), TestRng::from_seed(RngAlgorithm::ChaCha, &[7u8; 32]));
            let strat = (bf::wide_prog(false), bf::input_bytes());
            for _ in 0..n {
                let (w, input) = strat.new_tree(&mut runner).unwrap().current();
                let code = w.render();
                let r = refmodel::run(&code, &input, 8, 3_000_000);
                let mut temps = vec![];
                for l in 0..4 {
                    use hpbf::exec::Executor;
                    let e = hpbf::exec::BaseJitCompiler::<u8>::create(&code, l).unwrap();
                    temps.push(e.bytecode().temps);
                }
                println!("n={} nupd_sel={} looped={} len={} fate={:?} steps={} temps={:?}", w.n, w.nupd_sel, w.looped, code.len(), r.fate, r.steps, temps);
            }
        }
        "render" => {
            // hv render <bits> <level> <program>: digest of everything printable (C13, fresh-process comparison)
            exec::install_quiet_panic_hook();
            let bits: u32 = args[2].parse().expect("bits");
            let level: u32 = args[3].parse().expect("level");
            let source = if args[4] == "-" {
                let mut s = String::new();
                std::io::Read::read_to_string(&mut std::io::stdin(), &mut s).expect("source on stdin");
                s
            } else {
                args[4].clone()
            };
            match props::c13::render_digest(&source, bits, level) {
                Ok(d) => println!("{d}"),
                Err(e) => {
                    eprintln!("{e}");
                    std::process::exit(3)
                }
            }
        }
        "mkcase" => {
            // hv mkcase <ID> <program> <input csv> <bits> [sel0 sel1 sel2 sel3 sel4]
            child::init();
            exec::install_quiet_panic_hook();
            let id = args[2].as_str();
            let input: Vec<u8> = args[4].split(',').filter(|s| !s.trim().is_empty()).map(|x| x.trim().parse().expect("input byte")).collect();
            let bits: u32 = args[5].parse().expect("bits");
            let mut sel = [0u32; 5];
            for k in 0..5 {
                if let Some(v) = args.get(6 + k) {
                    sel[k] = v.parse().expect("sel")
                }
            }
            dispatch!(id, p, {
                match p.case_from_text(&args[3], &input, bits, sel) {
                    Some(c) => println!("{}", serde_json::to_string_pretty(&serde_json::json!({"property": id, "case": c})).unwrap()),
                    None => {
                        eprintln!("mkcase not supported for {id}");
                        std::process::exit(2)
                    }
                }
            });
        }
        _ => {
            eprintln!("usage: hv check <ID> [--tier quick|thorough] [--seed N] [--replay FILE]");
            std::process::exit(2);
        }
    }
}
