//! C13 - compilation is total, deterministic and leaves executors reusable.
use crate::bf::{self, Mix, ProgAst};
use crate::engine::{ddmin_program, fnv, Fail, Outcome, Property, Stats, Tier};
use crate::refmodel::{self, Ev, Fate};
use crate::verdict::{self, Info};
use crate::with_cell;
use hpbf::exec::{BaseJitCompiler, BcInterpreter, Executable, Executor, IrInterpreter};
use hpbf::runtime::Context;
use hpbf::{bc, ir, CellType};
use proptest::prelude::*;
use serde::{Deserialize, Serialize};
use std::cell::RefCell;
use std::io::{Read, Write};
use std::rc::Rc;

#[derive(Serialize, Deserialize, Clone, Debug)]
pub struct CompileCase {
    pub program: String,
    pub input: Vec<u8>,
    pub bits: u32,
    pub level: u32,
    /// other programs compiled in between two renderings
    pub others: Vec<String>,
    /// also compare against two fresh processes (ASLR off)
    pub cross_process: bool,
    #[serde(default)]
    pub family: String,
    /// `program` is prefix + body x rounds + suffix: the growth of the compiled forms with the round count is checked too
    #[serde(default)]
    pub chain: Option<Chain>,
}

#[derive(Serialize, Deserialize, Clone, Debug)]
pub struct Chain {
    pub prefix: String,
    pub body: String,
    pub suffix: String,
    pub rounds: u32,
}

impl Chain {
    pub fn program(&self, rounds: u32) -> String {
        format!("{}{}{}", self.prefix, self.body.repeat(rounds as usize), self.suffix)
    }
}

/// Size of IR + both bytecodes, in characters of their printed form.
fn compiled_size<C: CellType>(program: &str, level: u32) -> Result<usize, String> {
    let irp = ir::Program::<C>::parse(program).map_err(|e| format!("{:?}", e.kind))?.optimize(level);
    Ok(format!("{irp:?}").len() + format!("{:?}", bc::CodeGen::translate(&irp, 2, true)).len() + format!("{:?}", bc::CodeGen::translate(&irp, 11, false)).len())
}

/// Growth of the compiled size with the number of rounds. The round count is raised step by step
/// (2, 3, 4, 5, 6, 7, 8, 10, 12, 15, 18, 22, 27, 33, 41 ...; never past an output of 4 MiB or the case's
/// round count), so that an exponential family is recognised while it is still cheap. Between the
/// last two points the local degree d = ln(s_b / s_a) / ln(b / a) is computed (4 KiB added to both
/// sizes against constant offsets): polynomial growth of degree k gives d <= k at every scale;
/// d > 8 on an output of at least 1 MiB is reported (2^m reaches d = 0.69 m, i.e. d > 8 from 12 rounds on).
fn chain_growth<C: CellType>(ch: &Chain, level: u32) -> Result<Info, (String, String)> {
    let mut pts: Vec<(u32, usize)> = vec![];
    let mut m = 2u32.min(ch.rounds.max(1));
    loop {
        let s = compiled_size::<C>(&ch.program(m), level).map_err(|e| ("create".to_string(), e))?;
        pts.push((m, s));
        if s > 4 * 1024 * 1024 || m >= ch.rounds {
            break;
        }
        m = (m + (m / 4).max(1)).min(ch.rounds);
    }
    let mut info = Info::new(false);
    info.classes.push("chain:growth-measured".into());
    if pts.len() >= 2 {
        let (a, sa) = pts[pts.len() - 2];
        let (b, sb) = pts[pts.len() - 1];
        let d = (((sb + 4096) as f64) / ((sa + 4096) as f64)).ln() / ((b as f64) / (a as f64)).ln();
        info.maxima.push(("max-chain-local-degree-x100".into(), (d.max(0.0) * 100.0) as u64));
        info.maxima.push(("max-chain-compiled-size".into(), sb as u64));
        if sb >= 1024 * 1024 && d > 8.0 {
            let series = pts.iter().map(|(m, s)| format!("{m} rounds: {s}")).collect::<Vec<_>>().join(", ");
            return Err(("blow-up".into(), format!("compiled size (printed IR + both bytecodes, i{} -O{level}) grows faster than any reasonable polynomial in the number of rounds of a {} byte round body: {series}; local degree {:.1} between the last two points", C::BITS, ch.body.len(), d)));
        }
    }
    Ok(info)
}

/// Everything the library can print for (source, width, level): IR, both
/// bytecodes, machine code in the four mode combinations.
pub fn render<C: CellType>(program: &str, level: u32) -> Result<Vec<(String, Vec<u8>)>, String> {
    let irp = ir::Program::<C>::parse(program).map_err(|e| format!("{:?}", e.kind))?.optimize(level);
    let mut out = vec![("ir".to_string(), format!("{irp:?}").into_bytes())];
    out.push(("bc(2 regs, fusion)".into(), format!("{:?}", bc::CodeGen::translate(&irp, 2, true)).into_bytes()));
    out.push(("bc(11 regs)".into(), format!("{:?}", bc::CodeGen::translate(&irp, 11, false)).into_bytes()));
    let jit = BaseJitCompiler::<C>::create(program, level).map_err(|e| format!("{:?}", e.kind))?;
    for (limit, safe) in [(false, true), (true, true), (false, false), (true, false)] {
        out.push((format!("mc(limit={limit}, safe={safe})"), jit.print_mc(limit, safe)));
    }
    Ok(out)
}

pub fn render_digest(program: &str, bits: u32, level: u32) -> Result<String, String> {
    let parts = with_cell!(bits, C, render::<C>(program, level))?;
    Ok(parts.iter().map(|(k, v)| format!("{k}:{}:{:016x}", v.len(), fnv(&v.iter().map(|b| *b as char).collect::<String>()))).collect::<Vec<_>>().join(" "))
}

struct Src(Vec<u8>, usize, Rc<RefCell<Vec<Ev>>>);
impl Read for Src {
    fn read(&mut self, b: &mut [u8]) -> std::io::Result<usize> {
        self.2.borrow_mut().push(Ev::In);
        if self.1 < self.0.len() {
            b[0] = self.0[self.1];
            self.1 += 1;
            Ok(1)
        } else {
            Ok(0)
        }
    }
}
struct Sink(Rc<RefCell<Vec<Ev>>>);
impl Write for Sink {
    fn write(&mut self, b: &[u8]) -> std::io::Result<usize> {
        self.0.borrow_mut().push(Ev::Out(b[0]));
        Ok(1)
    }
    fn flush(&mut self) -> std::io::Result<()> {
        Ok(())
    }
}

pub fn run_once<C: CellType, E: Executable<C>>(e: &E, input: &[u8], budget: Option<usize>) -> (Vec<Ev>, Option<bool>) {
    let log = Rc::new(RefCell::new(vec![]));
    let fin;
    {
        let mut cx = Context::<C>::new(Some(Box::new(Src(input.to_vec(), 0, log.clone()))), Some(Box::new(Sink(log.clone()))));
        match budget {
            Some(b) => {
                cx.budget = b;
                fin = Some(e.execute_limited(&mut cx).expect("execute_limited"));
            }
            None => {
                e.execute(&mut cx).expect("execute");
                fin = None;
            }
        }
    }
    let v = log.borrow().clone();
    (v, fin)
}

fn reuse<C: CellType, E: Executable<C>>(name: &str, e: &E, c: &CompileCase, canon: Option<&[Ev]>) -> Result<(), (String, String)> {
    // interrupted first, then complete runs on fresh contexts
    let (pre, fin) = run_once::<C, E>(e, &c.input, Some(3));
    let first = run_once::<C, E>(e, &c.input, Some(50_000));
    for round in 0..2 {
        let again = run_once::<C, E>(e, &c.input, Some(50_000));
        if again != first {
            return Err(("not-reusable".into(), format!("{name}: run {} on a fresh context differs from the first run ({} vs {} events, finished {:?} vs {:?})", round + 2, again.0.len(), first.0.len(), again.1, first.1)));
        }
    }
    if pre.len() > first.0.len() || pre[..] != first.0[..pre.len()] {
        return Err(("not-reusable".into(), format!("{name}: the interrupted run (finished = {fin:?}) is not a prefix of the following run")));
    }
    if let Some(canon) = canon {
        // halting program: unlimited execution, three times
        for round in 0..3 {
            let (ev, _) = run_once::<C, E>(e, &c.input, None);
            if ev != canon {
                return Err(("not-reusable".into(), format!("{name}: execute #{} on a fresh context logs {} events, canonical run has {}", round + 1, ev.len(), canon.len())));
            }
        }
    }
    Ok(())
}

fn checks<C: CellType>(c: &CompileCase, canon: Option<Vec<Ev>>) -> Result<Info, (String, String)> {
    let n = c.program.len().max(1);
    // --- total + deterministic within the process (every HashMap instance has its own hash seed)
    let first = render::<C>(&c.program, c.level).map_err(|e| ("create".to_string(), e))?;
    for o in &c.others {
        for l in 0..4 {
            let _ = render::<C>(o, l);
        }
    }
    let second = render::<C>(&c.program, c.level).map_err(|e| ("create".to_string(), e))?;
    for ((k, a), (_, b)) in first.iter().zip(second.iter()) {
        if a != b {
            let at = a.iter().zip(b.iter()).position(|(x, y)| x != y).unwrap_or(a.len().min(b.len()));
            return Err(("not-deterministic".into(), format!("{k} differs between two compilations of the same (source, width i{}, level {}) in one process: lengths {} / {}, first difference at byte {at}", C::BITS, c.level, a.len(), b.len())));
        }
    }
    // --- no blow-up: deterministic size bound
    let bound = 64 * n * n + 4096;
    for (k, v) in first.iter().take(3) {
        if v.len() > bound {
            return Err(("blow-up".into(), format!("{k} is {} characters for a {n} byte program (bound 64 n^2 + 4096 = {bound})", v.len())));
        }
    }
    let ratio = first.iter().take(3).map(|(_, v)| v.len()).max().unwrap_or(0) as u64 * 100 / (n as u64 * n as u64).max(1);
    // --- reusable
    let ire = IrInterpreter::<C>::create(&c.program, c.level).map_err(|e| ("create".to_string(), format!("{:?}", e.kind)))?;
    reuse::<C, _>("IrInterpreter", &ire, c, canon.as_deref())?;
    let bce = BcInterpreter::<C>::create(&c.program, c.level).map_err(|e| ("create".to_string(), format!("{:?}", e.kind)))?;
    reuse::<C, _>("BcInterpreter", &bce, c, canon.as_deref())?;
    let temps = bce.bytecode().temps;
    let jit = BaseJitCompiler::<C>::create(&c.program, c.level).map_err(|e| ("create".to_string(), format!("{:?}", e.kind)))?;
    reuse::<C, _>("BaseJitCompiler", &jit, c, canon.as_deref())?;
    let jtemps = jit.bytecode().temps;
    let mut depth = 0usize;
    let mut maxd = 0usize;
    for b in c.program.bytes() {
        if b == b'[' {
            depth += 1;
            maxd = maxd.max(depth)
        } else if b == b']' {
            depth = depth.saturating_sub(1)
        }
    }
    let mut info = Info::new(temps >= 3 || jtemps >= 3 || maxd >= 50);
    if temps >= 3 || jtemps >= 3 {
        info.classes.push("three-or-more-temporaries".into())
    }
    if maxd >= 50 {
        info.classes.push("nesting-depth>=50".into())
    }
    if canon.is_some() {
        info.classes.push("halting(executed 3x unlimited)".into())
    }
    info.classes.push(format!("family:{}", c.family));
    info.classes.push(format!("level:{}", c.level));
    info.maxima.push(("max-source-bytes".into(), n as u64));
    info.maxima.push(("max-nesting-depth".into(), maxd as u64));
    info.maxima.push(("max-rendered-size-percent-of-n-squared(n>=16)".into(), if n >= 16 { ratio } else { 0 }));
    Ok(info)
}

/// Spawn a fresh process with ASLR disabled and let it render the digest.
fn fresh_process_digest(c: &CompileCase) -> Result<String, String> {
    use std::os::unix::process::CommandExt;
    let exe = std::env::current_exe().map_err(|e| e.to_string())?;
    let mut cmd = std::process::Command::new(exe);
    // the source goes through stdin: it may contain NUL or be larger than an argument may be
    cmd.args(["render", &c.bits.to_string(), &c.level.to_string(), "-"]);
    cmd.stdin(std::process::Stdio::piped()).stdout(std::process::Stdio::piped()).stderr(std::process::Stdio::piped());
    unsafe {
        cmd.pre_exec(|| {
            libc::personality(0x0040000); // ADDR_NO_RANDOMIZE
            Ok(())
        });
    }
    let mut child = cmd.spawn().map_err(|e| e.to_string())?;
    {
        use std::io::Write as _;
        let mut si = child.stdin.take().ok_or("no stdin")?;
        si.write_all(c.program.as_bytes()).map_err(|e| e.to_string())?;
    }
    let out = child.wait_with_output().map_err(|e| e.to_string())?;
    if !out.status.success() {
        return Err(format!("render process ended {:?}: {}", out.status, String::from_utf8_lossy(&out.stderr).chars().take(300).collect::<String>()));
    }
    Ok(String::from_utf8_lossy(&out.stdout).trim().to_string())
}

pub struct C13;

impl Property for C13 {
    type Gen = (ProgAst, Vec<u8>, u32, u32, Vec<Vec<u8>>, u8);
    type Case = CompileCase;
    fn id(&self) -> &'static str {
        "C13"
    }
    fn rule(&self) -> String {
        "all program families (deep nests up to depth 400, wide programs up to ~20 kB) x width x level 0..3, every case in the release and the debug-assertions build. total: ir parse+optimize, both bytecode translations, IrInterpreter/BcInterpreter/BaseJitCompiler::create and print_mc in the four (limit, safe) combinations must return (panic, abort, stack overflow = violation). no blow-up: rendered IR and both bytecodes stay below 64 n^2 + 4096 characters for an n byte source (time is used only in the extreme: a case that does not come back within 30 s and again within 240 s alone - compilation normally takes milliseconds - is reported as `compile-hang`); for the chain family (1 case in 13: six cells, one round body - seven templates such as p = copy(p)*copy(p), (p+u)(p+v), alternating p*q, or 2..6 random copy/move/multiply ops - repeated 4..48 times) the compiled size is measured for 2, 3, 4, ... rounds up to the case's count or the first output above 4 MiB, and a local degree ln(s_b/s_a)/ln(b/a) > 8 between the last two points on an output of at least 1 MiB is reported as `blow-up`, as is a measurement that finishes neither in 60 s nor, repeated alone, in 300 s. deterministic: (i) everything is rendered, up to 3 other programs are compiled at all levels, everything is rendered again - byte-identical (every std HashMap instance has its own seed, so order dependence shows); (ii) on a 4% sample two fresh processes started with ASLR disabled must print identical digests. reusable: each compiling executor runs an interrupted execute_limited(3), then execute_limited(50000) three times on fresh contexts (identical logs and flags; the interrupted log is a prefix) and, when the canonical run halts, execute three times (log equals the reference). Non-trivial: bytecode generation allocated >= 3 temporaries (the hash-map-iterating paths ran) or nesting depth >= 50; distinct = distinct (program, width, level)".into()
    }
    fn assumptions(&self) -> Vec<String> {
        vec!["machine code embeds addresses of runtime functions, so cross-process comparison runs with ASLR disabled (personality ADDR_NO_RANDOMIZE)".into(), "'no super-polynomial blow-up' is checked through a size bound that sat >= 57x above everything observed at design time; wall-clock time is not a correctness signal".into()]
    }
    fn cases(&self, tier: Tier) -> u64 {
        match tier {
            Tier::Quick => 16_000,
            Tier::Thorough => 400_000,
        }
    }
    fn strategy(&self, _tier: Tier) -> BoxedStrategy<Self::Gen> {
        (prop_oneof![12 => bf::prog(Mix { raw: 25, strukt: 30, div: 8, wide: 15, big: 2, roam: 8, deep: 12, commented: 3, hibits: 2 }), 1 => bf::chain_prog().prop_map(ProgAst::Chain)], bf::input_bytes(), bf::width(), 0u32..4, proptest::collection::vec(bf::raw_tokens(4, 60), 0..4), any::<u8>()).boxed()
    }
    fn concretize(&self, g: &Self::Gen) -> CompileCase {
        let chain = match &g.0 {
            ProgAst::Chain(ch) => {
                let (prefix, body, suffix) = ch.parts();
                Some(Chain { prefix, body, suffix, rounds: ch.rounds() })
            }
            _ => None,
        };
        CompileCase { program: g.0.render(), input: g.1.clone(), bits: g.2, level: g.3, others: g.4.iter().map(|t| bf::render_raw(t)).collect(), cross_process: g.5 < 10, family: g.0.family().to_string(), chain }
    }
    fn check(&self, c: &CompileCase, stats: &mut Stats) -> Outcome {
        if !refmodel::balanced(&c.program) || c.others.iter().any(|o| !refmodel::balanced(o)) {
            return Outcome::Skip("unbalanced");
        }
        if let Some(ch) = &c.chain {
            // growth with the round count first: it recognises an exponential family while compiling is still cheap
            let (ch2, bits, level) = (ch.clone(), c.bits, c.level);
            let mut scratch = Stats::default();
            let mut g = verdict::in_child(std::time::Duration::from_secs(60), &mut scratch, {
                let ch2 = ch2.clone();
                move || with_cell!(bits, C, chain_growth::<C>(&ch2, level))
            });
            if matches!(&g, Outcome::Inconclusive(w) if w == "timeout") && !crate::judge::FAST_REJECT.load(std::sync::atomic::Ordering::Relaxed) && !crate::judge::HANG_SHRINK.load(std::sync::atomic::Ordering::Relaxed) {
                // every step is capped at 4 MiB of output and normally takes well under a second; before this is
                // called a blow-up it gets five more minutes on its own
                scratch = Stats::default();
                g = verdict::in_child(std::time::Duration::from_secs(300), &mut scratch, move || with_cell!(bits, C, chain_growth::<C>(&ch2, level)));
            }
            match g {
                Outcome::Pass { .. } => {
                    for (k, v) in scratch.classes.iter() {
                        stats.add(k, *v);
                    }
                    for (k, v) in scratch.maxima.iter() {
                        stats.max(k, *v);
                    }
                }
                Outcome::Inconclusive(w) if w == "timeout" => return Outcome::Fail(Fail { kind: "blow-up".into(), detail: format!("measuring the growth of a {} byte round body (sizes capped at 4 MiB per step) did not finish within 60 s, nor within 300 s when repeated alone, at i{} -O{}", ch.body.len(), c.bits, c.level), cfg: None }),
                o => return o,
            }
        }
        let r = refmodel::run(&c.program, &c.input, c.bits, 60_000);
        let canon = if r.fate == Fate::Halt { Some(r.events.clone()) } else { None };
        let c2 = c.clone();
        let c3 = c.clone();
        let canon2 = canon.clone();
        let shrinking_a_hang = crate::judge::HANG_SHRINK.load(std::sync::atomic::Ordering::Relaxed);
        let first_window = if shrinking_a_hang { 4 } else { 30 };
        let mut out = verdict::in_child(std::time::Duration::from_secs(first_window), stats, move || with_cell!(c2.bits, C, checks::<C>(&c2, canon)));
        if shrinking_a_hang {
            // candidates of a confirmed compile-hang: still running after 4 s counts; the minimal case is confirmed in full afterwards
            if matches!(&out, Outcome::Inconclusive(w) if w == "timeout") {
                return Outcome::Fail(Fail { kind: "compile-hang".into(), detail: "still compiling after the shrink window (unconfirmed)".into(), cfg: None });
            }
        } else if matches!(&out, Outcome::Inconclusive(w) if w == "timeout") && !crate::judge::FAST_REJECT.load(std::sync::atomic::Ordering::Relaxed) {
            // Compiling and running the small budgets normally takes milliseconds (slowest observed: 50 ms for
            // 20 kB). Not coming back within 30 s, confirmed alone with a 240 s window - four to five orders of
            // magnitude beyond that - is not a load effect: building an executor does not return.
            let mut scratch = Stats::default();
            let again = verdict::in_child(std::time::Duration::from_secs(240), &mut scratch, move || with_cell!(c3.bits, C, checks::<C>(&c3, canon2)));
            out = match again {
                Outcome::Inconclusive(w) if w == "timeout" => Outcome::Fail(Fail { kind: "compile-hang".into(), detail: format!("compiling / rendering / the budget-limited reuse runs of this {} byte program at i{} -O{} did not return within 240 s in isolation (after 30 s under load)", c.program.len(), c.bits, c.level), cfg: None }),
                o => o,
            };
        }
        if let Outcome::Pass { nontrivial } = out {
            if c.cross_process {
                let a = fresh_process_digest(c);
                let b = fresh_process_digest(c);
                match (a, b) {
                    (Ok(a), Ok(b)) => {
                        if a != b {
                            return Outcome::Fail(Fail { kind: "not-deterministic".into(), detail: format!("two fresh processes (ASLR off) print different digests for i{} -O{}: {a} vs {b}", c.bits, c.level), cfg: None });
                        }
                        stats.class("compared-across-two-fresh-processes");
                    }
                    (Err(e), _) | (_, Err(e)) => return Outcome::Fail(Fail { kind: "create".into(), detail: format!("fresh process: {e}"), cfg: None }),
                }
            }
            return Outcome::Pass { nontrivial };
        }
        out
    }
    fn minimize(&self, c: CompileCase, fail: &Fail) -> CompileCase {
        let mut scratch = Stats::default();
        let mut budget = 1500u32;
        let mut c = c;
        if let (Some(ch), "blow-up") = (c.chain.clone(), fail.kind.as_str()) {
            // keep the chain structure: shrink the round body, then the prefix
            let body = ddmin_program(ch.body.clone(), &mut budget, &mut |cand| {
                let ch2 = Chain { body: cand.to_string(), ..ch.clone() };
                let cc = CompileCase { program: ch2.program(ch2.rounds), chain: Some(ch2), ..c.clone() };
                matches!(self.check(&cc, &mut scratch), Outcome::Fail(f) if f.kind == fail.kind)
            });
            let ch = Chain { body, ..ch };
            let prefix = ddmin_program(ch.prefix.clone(), &mut budget, &mut |cand| {
                let ch2 = Chain { prefix: cand.to_string(), ..ch.clone() };
                let cc = CompileCase { program: ch2.program(ch2.rounds), chain: Some(ch2), ..c.clone() };
                matches!(self.check(&cc, &mut scratch), Outcome::Fail(f) if f.kind == fail.kind)
            });
            let ch = Chain { prefix, ..ch };
            c.program = ch.program(ch.rounds);
            c.chain = Some(ch);
            c.others = vec![];
            return c;
        }
        c.chain = None;
        let prog = ddmin_program(c.program.clone(), &mut budget, &mut |cand| {
            let cc = CompileCase { program: cand.to_string(), ..c.clone() };
            matches!(self.check(&cc, &mut scratch), Outcome::Fail(f) if f.kind == fail.kind)
        });
        c.program = prog;
        let cc = CompileCase { others: vec![], ..c.clone() };
        if matches!(self.check(&cc, &mut scratch), Outcome::Fail(f) if f.kind == fail.kind) {
            c = cc;
        }
        c
    }
    fn floors(&self, tier: Tier) -> Vec<(&'static str, u64)> {
        let q = if tier == Tier::Quick { 1 } else { 25 };
        vec![("nontrivial", 3_000 * q), ("three-or-more-temporaries", 2_000 * q), ("nesting-depth>=50", 1_000 * q), ("compared-across-two-fresh-processes", 300 * q), ("halting(executed 3x unlimited)", 5_000 * q), ("chain:growth-measured", 1_000 * q)]
    }
    fn case_from_text(&self, program: &str, input: &[u8], bits: u32, sel: [u32; 5]) -> Option<CompileCase> {
        Some(CompileCase { program: program.to_string(), input: input.to_vec(), bits, level: sel[0], others: vec!["+[->+<]".into()], cross_process: true, family: "text".into(), chain: None })
    }
}
