//! C16 - the command line runs what it was asked to run.
use crate::bf;
use crate::child;
use crate::engine::{Fail, Outcome, Property, Stats, Tier};
use crate::exec::{self, Backend, Mode, RunCfg};
use crate::refmodel::{self, Ev, Fate};
use crate::with_cell;
use hpbf::{bc, ir};
use proptest::collection::vec;
use proptest::prelude::*;
use serde::{Deserialize, Serialize};
use std::io::Read;
use std::os::fd::AsRawFd;
use std::path::PathBuf;
use std::time::{Duration, Instant};

#[derive(Serialize, Deserialize, Clone, Debug, PartialEq)]
pub enum Arg {
    /// a piece of code, given as a bare argument or through `-f <file>` / `--file <file>`
    Code { text: String, via_file: bool, long_flag: bool },
    /// any documented flag, verbatim
    Flag(String),
    /// `--limit <value>`
    Limit(String),
    /// `-f <path that does not exist>`
    MissingFile,
    /// `-f <file that is not valid UTF-8>`
    BadUtf8File,
}

#[derive(Serialize, Deserialize, Clone, Debug)]
pub struct CliCase {
    pub args: Vec<Arg>,
    pub stdin: Vec<u8>,
    /// additionally run under strace and look for an anonymous executable mapping
    #[serde(default)]
    pub strace: bool,
    /// deliver stdin through a pipe in this many separate writes (0 = regular file)
    #[serde(default)]
    pub stdin_pieces: u8,
}

#[derive(Clone, Debug, PartialEq)]
enum Kind {
    PrintIr,
    PrintBc,
    PrintJitBc,
    PrintMc,
    Run(Backend),
}

#[derive(Clone, Debug)]
struct Model {
    code: String,
    kind: Kind,
    level: u32,
    bits: u32,
    limit: Option<usize>,
    safe: bool,
    help: bool,
    missing_file: bool,
    bad_utf8: bool,
    chunks: usize,
    file_chunks: usize,
}

/// The documented behaviour of argument processing: order-preserving
/// concatenation, last flag wins, defaults 8 bit / base JIT / level 2.
fn model(args: &[Arg]) -> Model {
    let mut m = Model { code: String::new(), kind: Kind::Run(Backend::Jit), level: 2, bits: 8, limit: None, safe: true, help: false, missing_file: false, bad_utf8: false, chunks: 0, file_chunks: 0 };
    for a in args {
        match a {
            Arg::Code { text, via_file, .. } => {
                m.code.push_str(text);
                m.chunks += 1;
                if *via_file {
                    m.file_chunks += 1
                }
            }
            Arg::MissingFile => m.missing_file = true,
            Arg::BadUtf8File => m.bad_utf8 = true,
            Arg::Limit(v) => {
                if let Ok(n) = v.parse::<usize>() {
                    m.limit = Some(n)
                }
            }
            Arg::Flag(f) => match f.as_str() {
                "--print-ir" => m.kind = Kind::PrintIr,
                "--print-bc" => m.kind = Kind::PrintBc,
                "--print-jit-bc" => m.kind = Kind::PrintJitBc,
                "--print-jit-mc" => m.kind = Kind::PrintMc,
                "--inplace" => m.kind = Kind::Run(Backend::Inplace),
                "--ir-int" => m.kind = Kind::Run(Backend::Ir),
                "--bc-int" => m.kind = Kind::Run(Backend::Bc),
                "--base-jit" => m.kind = Kind::Run(Backend::Jit),
                "-O0" => m.level = 0,
                "-O1" => m.level = 1,
                "-O2" => m.level = 2,
                "-O3" => m.level = 3,
                "-O4" => m.level = 4,
                "-O5" => m.level = 5,
                "-i8" => m.bits = 8,
                "-i16" => m.bits = 16,
                "-i32" => m.bits = 32,
                "-i64" => m.bits = 64,
                "-h" | "-help" | "--help" => m.help = true,
                "--static" => m.safe = false,
                other => panic!("model: undocumented flag {other}"),
            },
        }
    }
    m
}

fn cli_path() -> PathBuf {
    if let Ok(p) = std::env::var("HPBF_CLI") {
        return p.into();
    }
    let me = std::env::current_exe().expect("current_exe");
    me.parent().and_then(|p| p.parent()).expect("target dir").join("cli").join("release").join("hpbf")
}

struct Observed {
    stdout: Vec<u8>,
    stderr: String,
    code: Option<i32>,
    signal: Option<i32>,
    stdin_offset: i64,
    timed_out: bool,
    exec_mapping: Option<bool>,
}

static CASE_NO: std::sync::atomic::AtomicUsize = std::sync::atomic::AtomicUsize::new(0);

fn run_cli(c: &CliCase, strace: bool) -> Result<Observed, String> {
    let cli = cli_path();
    if !cli.exists() {
        return Err(format!("CLI binary {} missing (./check builds it)", cli.display()));
    }
    let n = CASE_NO.fetch_add(1, std::sync::atomic::Ordering::Relaxed);
    let dir = cli.parent().unwrap().join(format!("c16-tmp-{}-{}", std::process::id(), n));
    let _ = std::fs::remove_dir_all(&dir);
    std::fs::create_dir_all(&dir).map_err(|e| e.to_string())?;
    let mut argv: Vec<String> = vec![];
    for (i, a) in c.args.iter().enumerate() {
        match a {
            Arg::Code { text, via_file, long_flag } => {
                if *via_file {
                    let p = dir.join(format!("chunk{i}.bf"));
                    std::fs::write(&p, text).map_err(|e| e.to_string())?;
                    argv.push(if *long_flag { "--file".into() } else { "-f".into() });
                    argv.push(p.to_string_lossy().to_string());
                } else {
                    argv.push(text.clone());
                }
            }
            Arg::Flag(f) => argv.push(f.clone()),
            Arg::Limit(v) => {
                argv.push("--limit".into());
                argv.push(v.clone());
            }
            Arg::MissingFile => {
                argv.push("-f".into());
                argv.push(dir.join("does-not-exist.bf").to_string_lossy().to_string());
            }
            Arg::BadUtf8File => {
                let p = dir.join(format!("bad{i}.bf"));
                std::fs::write(&p, [b'+', 0xff, 0xfe, b'.']).map_err(|e| e.to_string())?;
                argv.push("-f".into());
                argv.push(p.to_string_lossy().to_string());
            }
        }
    }
    let stdin_path = dir.join("stdin.bin");
    std::fs::write(&stdin_path, &c.stdin).map_err(|e| e.to_string())?;
    let stdin_file = std::fs::File::open(&stdin_path).map_err(|e| e.to_string())?;
    let trace_path = dir.join("trace.txt");
    let mut cmd = if strace {
        let mut cmd = std::process::Command::new("strace");
        cmd.args(["-f", "-e", "trace=mmap", "-o"]).arg(&trace_path).arg(&cli);
        cmd
    } else {
        std::process::Command::new(&cli)
    };
    let piped = c.stdin_pieces > 0 && !strace;
    if piped {
        cmd.args(&argv).stdin(std::process::Stdio::piped());
    } else {
        cmd.args(&argv).stdin(stdin_file.try_clone().map_err(|e| e.to_string())?);
    }
    cmd.stdout(std::process::Stdio::piped()).stderr(std::process::Stdio::piped());
    let mut child = cmd.spawn().map_err(|e| format!("spawn: {e}"))?;
    let t_in = if piped {
        // the input arrives in several writes with pauses, as from a terminal or a slow producer
        let mut si = child.stdin.take().unwrap();
        let data = c.stdin.clone();
        let pieces = c.stdin_pieces as usize;
        Some(std::thread::spawn(move || {
            use std::io::Write as _;
            let per = (data.len() + pieces - 1) / pieces.max(1);
            for chunk in data.chunks(per.max(1)) {
                if si.write_all(chunk).is_err() || si.flush().is_err() {
                    break;
                }
                std::thread::sleep(Duration::from_millis(12));
            }
        }))
    } else {
        None
    };
    let out = child.stdout.take().unwrap();
    let err = child.stderr.take().unwrap();
    // programs are small: read both pipes from helper threads, watch the clock here
    let t_out = std::thread::spawn(move || {
        let mut v = vec![];
        let _ = out.take(8 << 20).read_to_end(&mut v);
        v
    });
    let t_err = std::thread::spawn(move || {
        let mut v = vec![];
        let _ = err.take(1 << 20).read_to_end(&mut v);
        v
    });
    let start = Instant::now();
    let mut timed_out = false;
    let status = loop {
        match child.try_wait().map_err(|e| e.to_string())? {
            Some(s) => break s,
            None => {
                if start.elapsed() > Duration::from_secs(20) {
                    let _ = child.kill();
                    timed_out = true;
                    break child.wait().map_err(|e| e.to_string())?;
                }
                std::thread::sleep(Duration::from_millis(2));
            }
        }
    };
    if let Some(t) = t_in {
        let _ = t.join();
    }
    let stdout = t_out.join().unwrap_or_default();
    let stderr = String::from_utf8_lossy(&t_err.join().unwrap_or_default()).to_string();
    let stdin_offset = if piped { 0 } else { (unsafe { libc::lseek(stdin_file.as_raw_fd(), 0, libc::SEEK_CUR) }) as i64 };
    let exec_mapping = if strace { std::fs::read_to_string(&trace_path).ok().map(|t| t.lines().any(|l| l.contains("PROT_EXEC") && l.contains("PROT_WRITE") && l.contains("MAP_ANONYMOUS"))) } else { None };
    use std::os::unix::process::ExitStatusExt;
    let _ = std::fs::remove_dir_all(&dir);
    Ok(Observed { stdout, stderr, code: status.code(), signal: status.signal(), stdin_offset, timed_out, exec_mapping })
}

/// What the library itself does for the selected configuration (forked child).
fn library_limited_output(code: &str, stdin: &[u8], m: &Model, backend: Backend, budget: usize) -> Option<Vec<u8>> {
    let cfg = RunCfg { mode: Mode::Limited(budget as u64), ..RunCfg::plain(backend, m.level) };
    let (code, stdin, bits) = (code.to_string(), stdin.to_vec(), m.bits);
    let run = child::in_child(Duration::from_secs(15), move || {
        exec::run_all(&code, &stdin, bits, &[cfg], usize::MAX, 14_000);
        0
    });
    let o = run.obs.iter().find(|o| o.cfg == 0)?;
    if !matches!(o.end, child::End::Returned(_)) {
        return None;
    }
    Some(o.events.iter().filter_map(|e| if let Ev::Out(b) = e { Some(*b) } else { None }).collect())
}

fn library_print(code: &str, m: &Model) -> Option<Vec<u8>> {
    let (code, bits, level, kind, limit, safe) = (code.to_string(), m.bits, m.level, m.kind.clone(), m.limit.is_some(), m.safe);
    let run = child::in_child(Duration::from_secs(15), move || {
        let text: Option<Vec<u8>> = exec::guarded(|| {
            with_cell!(bits, C, {
                let p = ir::Program::<C>::parse(&code).ok()?.optimize(level);
                match kind {
                    Kind::PrintIr => Some(format!("{p:?}\n").into_bytes()),
                    Kind::PrintBc => Some(format!("{:?}\n", bc::CodeGen::translate(&p, 2, true)).into_bytes()),
                    Kind::PrintJitBc => Some(format!("{:?}\n", bc::CodeGen::translate(&p, 12, false)).into_bytes()),
                    Kind::PrintMc => {
                        use hpbf::exec::Executor;
                        let j = hpbf::exec::BaseJitCompiler::<C>::create(&code, level).ok()?;
                        Some(j.print_mc(limit, safe))
                    }
                    Kind::Run(_) => None,
                }
            })
        })
        .ok()
        .flatten();
        if let Some(t) = text {
            let hex: String = t.iter().map(|b| format!("{b:02x}")).collect();
            child::log_note(&format!("expect={hex}"));
        }
        0
    });
    let hex = run.note("expect")?;
    Some((0..hex.len() / 2).map(|i| u8::from_str_radix(&hex[2 * i..2 * i + 2], 16).unwrap()).collect())
}

pub struct C16;

const CODE_CHARS: &[char] = &['+', '-', '<', '>', '.', ',', '[', ']'];

impl C16 {
    fn judge(&self, c: &CliCase, stats: &mut Stats) -> Outcome {
        let m = model(&c.args);
        let fail = |kind: &str, detail: String| Outcome::Fail(Fail { kind: kind.into(), detail, cfg: None });
        // Decide first whether the invocation is one the property speaks about: an executing run must be
        // finite (canonical run halts, or a moderate --limit), and --static must stay inside its region.
        let mut reference = None;
        if !m.help && !m.missing_file && !m.bad_utf8 && !refmodel::balanced(&m.code) && m.kind == Kind::Run(Backend::Inplace) {
            return Outcome::Skip("unbalanced code on the in-place interpreter (not specified)");
        }
        if !m.help && !m.missing_file && !m.bad_utf8 && refmodel::balanced(&m.code) {
            if let Kind::Run(_) = m.kind {
                let r = refmodel::run(&m.code, &c.stdin, m.bits, 400_000);
                let finite = r.fate == Fate::Halt || m.limit.map(|l| l <= 200_000).unwrap_or(false);
                if !finite {
                    return Outcome::Skip("executing run that is not known to be finite");
                }
                if !m.safe && r.fate != Fate::Halt {
                    return Outcome::Skip("--static on a program whose pointer excursion is not known");
                }
                reference = Some(r);
            }
        }
        let obs = match run_cli(c, false) {
            Ok(o) => o,
            Err(e) => return Outcome::Inconclusive(format!("could not run the CLI: {e}")),
        };
        if obs.timed_out {
            return Outcome::Inconclusive("CLI run exceeded 20 s".into());
        }
        if let Some(s) = obs.signal {
            return fail("crash", format!("hpbf was killed by signal {s}; stderr: {}", obs.stderr.chars().take(200).collect::<String>()));
        }
        let code = obs.code.unwrap_or(-1);
        // ---- help
        if m.help {
            stats.class("help");
            // what -h prints and returns is not part of the property; it must not execute the code
            if obs.stdin_offset != 0 {
                return fail("stdin-consumed", format!("-h consumed {} bytes of stdin", obs.stdin_offset));
            }
            return Outcome::Pass { nontrivial: false };
        }
        // ---- unreadable / undecodable file
        if m.missing_file || m.bad_utf8 {
            stats.class(if m.missing_file { "error:file-cannot-be-opened" } else { "error:file-not-utf8" });
            if code != 1 {
                return fail("exit-code", format!("a code file could not be read but the exit code is {code} (expected 1); stderr: {:?}", obs.stderr));
            }
            if obs.stderr.trim().is_empty() {
                return fail("diagnostic", "no diagnostic on stderr for the unreadable file".to_string());
            }
            if !obs.stdout.is_empty() {
                return fail("executed-despite-error", format!("{} bytes on stdout although a code file could not be read", obs.stdout.len()));
            }
            return Outcome::Pass { nontrivial: m.chunks >= 2 };
        }
        let balanced = refmodel::balanced(&m.code);
        let parsing = m.kind != Kind::Run(Backend::Inplace);
        // ---- unbalanced brackets on a parsing back end
        if !balanced {
            if !parsing {
                return Outcome::Skip("unbalanced code on the in-place interpreter (not specified)");
            }
            stats.class("error:unbalanced");
            if code != 1 {
                return fail("exit-code", format!("unbalanced brackets but exit code {code} (expected 1); stderr: {:?}", obs.stderr));
            }
            if obs.stderr.trim().is_empty() {
                return fail("diagnostic", "no diagnostic on stderr for unbalanced brackets".to_string());
            }
            if !obs.stdout.is_empty() {
                return fail("executed-despite-error", format!("{} bytes on stdout for unbalanced code", obs.stdout.len()));
            }
            if obs.stdin_offset != 0 {
                return fail("stdin-consumed", format!("{} bytes of stdin consumed for unbalanced code", obs.stdin_offset));
            }
            return Outcome::Pass { nontrivial: m.chunks >= 2 && m.file_chunks >= 1 };
        }
        if code != 0 {
            return fail("exit-code", format!("exit code {code} for a valid invocation; stderr: {:?}", obs.stderr.chars().take(300).collect::<String>()));
        }
        let nondefault = m.bits != 8 || m.kind != Kind::Run(Backend::Jit) || m.level != 2;
        match &m.kind {
            Kind::Run(backend) => {
                let r = reference.take().expect("reference run");
                let canon: Vec<u8> = r.events.iter().filter_map(|e| if let Ev::Out(b) = e { Some(*b) } else { None }).collect();
                stats.class(&format!("run:{}", backend.name()));
                stats.class(&format!("run:width:{}", m.bits));
                let consumed_input = r.events.iter().any(|e| matches!(e, Ev::In));
                match m.limit {
                    None => {
                        if obs.stdout != canon {
                            let i = obs.stdout.iter().zip(canon.iter()).position(|(a, b)| a != b).unwrap_or(obs.stdout.len().min(canon.len()));
                            return fail("wrong-output", format!("stdout ({} bytes) differs from the canonical output ({} bytes) of the concatenated code at byte {i} [backend {:?}, -i{}, -O{}, static={}]", obs.stdout.len(), canon.len(), backend, m.bits, m.level, !m.safe));
                        }
                    }
                    Some(budget) => {
                        stats.class("run:limited");
                        // prefix of the canonical output ...
                        let n = obs.stdout.len().min(canon.len());
                        if obs.stdout[..n] != canon[..n] || (obs.stdout.len() > canon.len() && crate::judge::total_events_known(&r)) {
                            return fail("wrong-output", format!("stdout of the limited run is not a prefix of the canonical output [backend {:?}, -i{}, -O{}, --limit {budget}]", backend, m.bits, m.level));
                        }
                        // ... all of it when the budget is beyond anything the program can use (the canonical run
                        // halted within 400 000 steps, a budget unit is never worth less than a step) ...
                        if budget >= 1usize << 32 && r.fate == Fate::Halt {
                            stats.class("run:limited-by-a-budget-above-2^32");
                            if obs.stdout != canon {
                                return fail("wrong-output", format!("--limit {budget} cut the run short: {} of {} canonical output bytes [backend {:?}, -i{}, -O{}]", obs.stdout.len(), canon.len(), backend, m.bits, m.level));
                            }
                        }
                        // ... and exactly what the selected library back end does with that budget
                        if let Some(lib) = library_limited_output(&m.code, &c.stdin, &m, *backend, budget) {
                            if lib != obs.stdout {
                                return fail("wrong-configuration", format!("--limit {budget}: stdout has {} bytes, the library's {:?} at -O{} -i{} with that budget prints {} bytes (another back end, level or budget was used)", obs.stdout.len(), backend, m.level, m.bits, lib.len()));
                            }
                            // does the budget reveal the back end? (another back end would print something else)
                            let other = if matches!(backend, Backend::Inplace | Backend::Ir) { Backend::Bc } else { Backend::Ir };
                            if let Some(o) = library_limited_output(&m.code, &c.stdin, &m, other, budget) {
                                if o != lib {
                                    stats.class("limit-output-reveals-backend-family");
                                }
                            }
                        }
                    }
                }
                if c.strace {
                    match run_cli(c, true) {
                        Ok(o2) => {
                            if let Some(has) = o2.exec_mapping {
                                let want = *backend == Backend::Jit;
                                stats.class("strace-probe");
                                if has != want {
                                    return fail("wrong-configuration", format!("anonymous executable mapping {} although the selected back end is {:?}", if has { "present" } else { "absent" }, backend));
                                }
                            }
                        }
                        Err(_) => {}
                    }
                }
                if c.args.iter().any(|a| matches!(a, Arg::Code { text, .. } if text.len() > 65536)) {
                    stats.class("code-file-larger-than-64KiB-with-multibyte-comments");
                }
                if c.stdin_pieces > 0 && consumed_input && c.stdin.len() >= 2 {
                    stats.class("stdin-through-a-pipe-in-several-writes");
                }
                let nt = m.chunks >= 2 && m.file_chunks >= 1 && nondefault && consumed_input;
                if nondefault {
                    stats.class("non-default-configuration")
                }
                Outcome::Pass { nontrivial: nt }
            }
            print => {
                stats.class(&format!("print:{:?}", print));
                if obs.stdin_offset != 0 {
                    return fail("stdin-consumed", format!("{:?} consumed {} bytes of stdin", print, obs.stdin_offset));
                }
                match library_print(&m.code, &m) {
                    Some(exp) => {
                        if *print == Kind::PrintMc {
                            // machine code embeds addresses of the binary's own runtime functions: compare the shape
                            if exp.len() != obs.stdout.len() || obs.stdout.is_empty() {
                                return fail("wrong-output", format!("--print-jit-mc printed {} bytes, the library generates {} for -i{} -O{} limit={} safe={}", obs.stdout.len(), exp.len(), m.bits, m.level, m.limit.is_some(), m.safe));
                            }
                        } else if exp != obs.stdout && !{
                            // tolerate framing (extra blank lines, a header) around the rendering
                            let (e, o) = (String::from_utf8_lossy(&exp).trim().to_string(), String::from_utf8_lossy(&obs.stdout).to_string());
                            !e.is_empty() && o.contains(&e)
                        } {
                            // which configuration would have produced it?
                            let mut hint = String::new();
                            for (b, l) in [(8u32, 2u32), (m.bits, 2), (8, m.level), (m.bits, 1), (m.bits, 0), (m.bits, 3)] {
                                let mm = Model { bits: b, level: l, ..m.clone() };
                                if library_print(&m.code, &mm).as_deref() == Some(&obs.stdout[..]) {
                                    hint = format!(" (it is the rendering for -i{b} -O{l})");
                                    break;
                                }
                            }
                            return fail("wrong-output", format!("{:?} output differs from the library's rendering for -i{} -O{}{hint}", print, m.bits, m.level));
                        }
                    }
                    None => return Outcome::Inconclusive("library rendering failed".into()),
                }
                // the level is observable when neighbouring levels render differently
                if *print == Kind::PrintIr {
                    let other = Model { level: if m.level == 2 { 1 } else { 2 }, ..m.clone() };
                    if library_print(&m.code, &other).map(|o| o != obs.stdout).unwrap_or(false) {
                        stats.class("print-ir-reveals-level");
                    }
                }
                Outcome::Pass { nontrivial: m.chunks >= 2 && m.file_chunks >= 1 && nondefault }
            }
        }
    }
}

fn chunk_text() -> impl Strategy<Value = String> {
    // small balanced pieces; concatenation of balanced pieces is balanced
    prop_oneof![
        4 => bf::raw_tokens(1, 24).prop_map(|t| bf::render_raw(&t)),
        2 => bf::struct_prog(false).prop_map(|p| p.render()).prop_filter("short", |s| s.len() < 400),
        1 => Just(",[.,]".to_string()),
        1 => Just("+[[.>+<-]+]".to_string()),
        // width probe: prints 1 iff 256 != 0 in the cell type, then 1 iff 65536 != 0
        1 => Just("++++++++[>++++++++++++++++++++++++++++++++<-]>[<+>[-]]<.[-]++++++++++++++++[>++++++++++++++++<-]>[>++++++++++++++++<-]>[>++++++++++++++++<-]>[<<<+>>>[-]]<<<.".to_string()),
    ]
}

impl Property for C16 {
    type Gen = CliCase;
    type Case = CliCase;
    fn id(&self) -> &'static str {
        "C16"
    }
    fn rule(&self) -> String {
        "argument vectors built from a model: 1..4 code chunks (bare arguments, or -f / --file temp files which may also hold comments; 3 % of the files are a little over 64 KiB with multi-byte comment characters around byte offset 65536), interleaved in random order with documented flags only (-O0..-O5, -i8..-i64, --inplace/--ir-int/--bc-int/--base-jit, --limit N incl. invalid N, --static, the four print options, -h), repeated flags (last wins); stdin is a regular temp file (70 %) or a pipe fed in 2..7 separate writes with pauses (30 %); error cases: unbalanced concatenation (a chunk with a stray bracket), a file that does not exist, a file that is not UTF-8. The real binary (built from /repo's working tree) is run as a process. Oracle = model of the documented argument processing + reference interpreter + the library: stdout equals the canonical output of the concatenated code at the selected width (prefix under --limit - the whole output when the limit is 2^32 or more, values m * 2^k + d with k = 32..39 included -, and byte-identical to what the selected library back end prints with that budget, which reveals back-end family/level where budgets differ); print options print exactly the library's rendering for the selected (width, level) - which reveals width and level - and leave the stdin offset at 0; exit 0; errors give exit 1, empty stdout and a non-empty diagnostic on stderr (its wording is not checked); on a sample the run is repeated under strace and the anonymous PROT_EXEC mapping must be present exactly when the base JIT (also: the default) is selected. Non-trivial: at least two chunks of which one from a file, a non-default width/back end/level, and (for runs) input consumed; distinct = distinct (argv model, stdin)".into()
    }
    fn assumptions(&self) -> Vec<String> {
        vec![
            "bare code chunks consist of command characters only (an argument such as -O9 is silently run as code - undocumented, outside the domain); --time is excluded (prints wall time)".into(),
            "--print-jit-mc embeds addresses of the CLI binary's own runtime functions; only its length is compared with the library's".into(),
            "unbalanced code on --inplace is not specified by the property and skipped".into(),
        ]
    }
    fn cases(&self, tier: Tier) -> u64 {
        match tier {
            Tier::Quick => 24_000,
            Tier::Thorough => 500_000,
        }
    }
    fn strategy(&self, _tier: Tier) -> BoxedStrategy<CliCase> {
        let small = (chunk_text(), any::<bool>(), any::<bool>()).prop_map(|(text, via_file, long_flag)| Arg::Code { text, via_file, long_flag });
        // a file of a little over 64 KiB: code, then an ASCII comment, then multi-byte comment characters placed so
        // that they lie around byte offset 65536 (whatever block size a reader uses, 64 KiB is the usual one)
        let big = (chunk_text(), 0usize..150, any::<bool>()).prop_map(|(code, d, long_flag)| {
            let pad = 65536usize.saturating_sub(code.len() + 1 + d);
            let mut text = code;
            text.push('\n');
            text.extend(std::iter::repeat('c').take(pad));
            for _ in 0..20 {
                text.push_str("é☃𝄞");
            }
            Arg::Code { text, via_file: true, long_flag }
        });
        let code = prop_oneof![30 => small, 1 => big];
        let stray = (vec(0usize..8, 1..8), any::<bool>()).prop_map(|(v, via_file)| Arg::Code { text: v.into_iter().map(|i| CODE_CHARS[i]).collect::<String>() + "]", via_file, long_flag: false });
        let flag = prop_oneof![
            6 => prop_oneof![Just("-O0"), Just("-O1"), Just("-O2"), Just("-O3"), Just("-O4"), Just("-O5")].prop_map(|s| Arg::Flag(s.into())),
            6 => prop_oneof![Just("-i8"), Just("-i16"), Just("-i32"), Just("-i64")].prop_map(|s| Arg::Flag(s.into())),
            8 => prop_oneof![Just("--inplace"), Just("--ir-int"), Just("--bc-int"), Just("--base-jit")].prop_map(|s| Arg::Flag(s.into())),
            3 => prop_oneof![Just("--print-ir"), Just("--print-bc"), Just("--print-jit-bc"), Just("--print-jit-mc")].prop_map(|s| Arg::Flag(s.into())),
            3 => prop_oneof![4 => (0usize..60).prop_map(|n| n.to_string()), 2 => (0usize..100_000).prop_map(|n| n.to_string()), 1 => Just("4611686018427387904".to_string()), 2 => (0usize..6, 1u64..5, 32u32..40).prop_map(|(d, m, k)| ((m << k) + d as u64).to_string()), 1 => Just("x1".to_string()), 1 => Just("-3".to_string())].prop_map(Arg::Limit),
            1 => Just(Arg::Flag("--static".into())),
        ];
        let special = prop_oneof![20 => Just(None), 1 => Just(Some(Arg::Flag("-h".into()))), 1 => Just(Some(Arg::Flag("--help".into()))), 2 => Just(Some(Arg::MissingFile)), 1 => Just(Some(Arg::BadUtf8File)), 3 => stray.prop_map(Some)];
        (vec(code, 1..5), vec(flag, 0..7), special, vec(any::<u16>(), 12), bf::input_bytes(), 0u8..20)
            .prop_map(|(codes, flags, special, order, stdin, st)| {
                // interleave flags into the chunk sequence (chunk order is what matters and is kept)
                let mut args: Vec<Arg> = codes;
                let mut k = 0;
                for f in flags.into_iter().chain(special) {
                    let at = (order[k % order.len()] as usize * (args.len() + 1)) >> 16;
                    args.insert(at, f);
                    k += 1;
                }
                CliCase { args, stdin, strace: st == 0, stdin_pieces: if st >= 14 { st - 12 } else { 0 } }
            })
            .boxed()
    }
    fn concretize(&self, g: &CliCase) -> CliCase {
        g.clone()
    }
    fn check(&self, c: &CliCase, stats: &mut Stats) -> Outcome {
        // domain guard for replayed / shrunk cases
        for a in &c.args {
            if let Arg::Code { text, via_file: false, .. } = a {
                if text.chars().any(|ch| !CODE_CHARS.contains(&ch)) {
                    return Outcome::Skip("bare chunk with non-command characters");
                }
            }
        }
        if !c.args.iter().any(|a| matches!(a, Arg::Code { .. })) {
            return Outcome::Skip("no code");
        }
        self.judge(c, stats)
    }
    fn minimize(&self, c: CliCase, fail: &Fail) -> CliCase {
        let mut c = c;
        let mut scratch = Stats::default();
        let mut i = 0;
        while i < c.args.len() {
            let mut cand = c.clone();
            cand.args.remove(i);
            if matches!(self.check(&cand, &mut scratch), Outcome::Fail(f) if f.kind == fail.kind) {
                c = cand
            } else {
                i += 1
            }
        }
        c
    }
    fn floors(&self, tier: Tier) -> Vec<(&'static str, u64)> {
        let q = if tier == Tier::Quick { 1 } else { 20 };
        vec![("nontrivial", 1500 * q), ("run:limited", 1000 * q), ("run:limited-by-a-budget-above-2^32", 200 * q), ("error:unbalanced", 600 * q), ("error:file-cannot-be-opened", 300 * q), ("print:PrintIr", 200 * q), ("strace-probe", 200 * q), ("stdin-through-a-pipe-in-several-writes", 300 * q), ("code-file-larger-than-64KiB-with-multibyte-comments", 100 * q), ("non-default-configuration", 4000 * q), ("limit-output-reveals-backend-family", 200 * q), ("print-ir-reveals-level", 100 * q)]
    }
}
