//! Guard-page / fault-injecting global allocator.
//!
//! Outside an armed window it is the system allocator. Armed, every allocation
//! is its own mmap: PROT_NONE page, body, PROT_NONE page, with the block placed
//! flush right (its last byte is followed by the guard page), flush left, or
//! alternating. Any access outside an owned block - from Rust, from threaded
//! code or from JIT machine code - is a SIGSEGV. Freed blocks are unmapped, so
//! a stale tape pointer faults as well. It counts allocations and can refuse
//! the k-th one (C17).

use std::alloc::{GlobalAlloc, Layout, System};
use std::sync::atomic::{AtomicUsize, Ordering::SeqCst};

/// 0 off, 1 = flush right, 2 = flush left, 3 = alternate
pub static MODE: AtomicUsize = AtomicUsize::new(0);
/// allocations of any kind while armed
pub static COUNT: AtomicUsize = AtomicUsize::new(0);
/// alloc_zeroed calls while armed
pub static ZCOUNT: AtomicUsize = AtomicUsize::new(0);
/// refuse the k-th (0-based) allocation of any kind while armed
pub static FAIL_ANY_AT: AtomicUsize = AtomicUsize::new(usize::MAX);
/// refuse the k-th (0-based) alloc_zeroed while armed
pub static FAIL_ZEROED_AT: AtomicUsize = AtomicUsize::new(usize::MAX);
/// number of refused requests
pub static REFUSED: AtomicUsize = AtomicUsize::new(0);
/// size of the refused request
pub static REFUSED_SIZE: AtomicUsize = AtomicUsize::new(0);
/// bytes live in guarded allocations at the moment of the refusal
pub static LIVE_AT_REFUSAL: AtomicUsize = AtomicUsize::new(0);
static LIVE_BYTES: AtomicUsize = AtomicUsize::new(0);
static LIVE_BLOCKS: AtomicUsize = AtomicUsize::new(0);
/// sizes of the first alloc_zeroed requests (tape growth history)
pub static ZSIZES: [AtomicUsize; 32] = {
    const Z: AtomicUsize = AtomicUsize::new(0);
    [Z; 32]
};

pub struct G;
const PAGE: usize = 4096;
const N: usize = 4096;
static PTR: [AtomicUsize; N] = {
    const Z: AtomicUsize = AtomicUsize::new(0);
    [Z; N]
};
static BASE: [AtomicUsize; N] = {
    const Z: AtomicUsize = AtomicUsize::new(0);
    [Z; N]
};
static TOTAL: [AtomicUsize; N] = {
    const Z: AtomicUsize = AtomicUsize::new(0);
    [Z; N]
};
static SIZE: [AtomicUsize; N] = {
    const Z: AtomicUsize = AtomicUsize::new(0);
    [Z; N]
};

/// Is `addr .. addr + len` inside a live guarded block?
pub fn owns(addr: usize, len: usize) -> bool {
    for i in 0..N {
        let p = PTR[i].load(SeqCst);
        if p != 0 && addr >= p && addr.wrapping_add(len) <= p + SIZE[i].load(SeqCst) && addr.wrapping_add(len) >= addr {
            return true;
        }
    }
    false
}

pub fn arm(mode: usize) {
    COUNT.store(0, SeqCst);
    ZCOUNT.store(0, SeqCst);
    REFUSED.store(0, SeqCst);
    MODE.store(mode, SeqCst);
}
pub fn disarm() {
    MODE.store(0, SeqCst);
    FAIL_ANY_AT.store(usize::MAX, SeqCst);
    FAIL_ZEROED_AT.store(usize::MAX, SeqCst);
}

unsafe fn galloc(l: Layout, mode: usize, zeroed: bool) -> *mut u8 {
    let k = COUNT.fetch_add(1, SeqCst);
    let mut refuse = k == FAIL_ANY_AT.load(SeqCst);
    if zeroed {
        let z = ZCOUNT.fetch_add(1, SeqCst);
        if z < ZSIZES.len() {
            ZSIZES[z].store(l.size(), SeqCst);
        }
        refuse |= z == FAIL_ZEROED_AT.load(SeqCst);
    }
    if refuse {
        REFUSED.fetch_add(1, SeqCst);
        REFUSED_SIZE.store(l.size(), SeqCst);
        LIVE_AT_REFUSAL.store(LIVE_BYTES.load(SeqCst), SeqCst);
        // tell the parent without allocating: "refused=<size>,<live bytes>,<zeroed>"
        let mut buf = [0u8; 80];
        let mut n = 0;
        for &b in b"refused=" {
            buf[n] = b;
            n += 1;
        }
        for (i, v) in [l.size(), LIVE_BYTES.load(SeqCst), zeroed as usize].into_iter().enumerate() {
            if i > 0 {
                buf[n] = b',';
                n += 1;
            }
            let mut digits = [0u8; 24];
            let mut d = 0;
            let mut v = v;
            loop {
                digits[d] = b'0' + (v % 10) as u8;
                d += 1;
                v /= 10;
                if v == 0 {
                    break;
                }
            }
            while d > 0 {
                d -= 1;
                buf[n] = digits[d];
                n += 1;
            }
        }
        crate::child::log_note(std::str::from_utf8_unchecked(&buf[..n]));
        return std::ptr::null_mut();
    }
    let size = l.size().max(1);
    let body = (size + PAGE - 1) / PAGE * PAGE;
    let total = body + 2 * PAGE;
    let base = libc::mmap(std::ptr::null_mut(), total, libc::PROT_NONE, libc::MAP_PRIVATE | libc::MAP_ANONYMOUS, -1, 0) as *mut u8;
    if base as isize == -1 {
        return std::ptr::null_mut();
    }
    if libc::mprotect(base.add(PAGE) as *mut _, body, libc::PROT_READ | libc::PROT_WRITE) != 0 {
        // the kernel will not back the block: that is an allocation failure, not a block to hand out
        libc::munmap(base as *mut _, total);
        return std::ptr::null_mut();
    }
    let right = mode == 1 || (mode == 3 && k % 2 == 0);
    let p = if right { ((base as usize + PAGE + body - size) & !(l.align() - 1)) as *mut u8 } else { base.add(PAGE) };
    for f in FREED.iter() {
        let _ = f.compare_exchange(p as usize, 0, SeqCst, SeqCst);
    }
    for i in 0..N {
        if PTR[i].compare_exchange(0, p as usize, SeqCst, SeqCst).is_ok() {
            BASE[i].store(base as usize, SeqCst);
            TOTAL[i].store(total, SeqCst);
            SIZE[i].store(size, SeqCst);
            LIVE_BYTES.fetch_add(size, SeqCst);
            LIVE_BLOCKS.fetch_add(1, SeqCst);
            return p;
        }
    }
    libc::abort();
}

/// recently freed guarded blocks: a second free of one of them (a stale owner) is reported
static FREED: [AtomicUsize; 64] = {
    const Z: AtomicUsize = AtomicUsize::new(0);
    [Z; 64]
};
static FREED_NEXT: AtomicUsize = AtomicUsize::new(0);
pub const EXIT_DOUBLE_FREE: i32 = 95;

/// The system allocator may hand out the address of an unmapped guarded block again (large requests are
/// mmap-ed); such an address is no longer "freed".
unsafe fn forget_reused(p: *mut u8) -> *mut u8 {
    if FREED_NEXT.load(SeqCst) != 0 && !p.is_null() {
        for f in FREED.iter() {
            let _ = f.compare_exchange(p as usize, 0, SeqCst, SeqCst);
        }
    }
    p
}

unsafe fn check_double_free(p: *mut u8) {
    if p.is_null() {
        return;
    }
    for f in FREED.iter() {
        if f.load(SeqCst) == p as usize {
            crate::child::log_note("double-free=a guarded block was freed twice (stale owner)");
            libc::_exit(EXIT_DOUBLE_FREE);
        }
    }
}

unsafe fn gfree(p: *mut u8) -> bool {
    if LIVE_BLOCKS.load(SeqCst) == 0 {
        if MODE.load(SeqCst) != 0 || FREED_NEXT.load(SeqCst) != 0 {
            check_double_free(p);
        }
        return false;
    }
    for i in 0..N {
        if PTR[i].load(SeqCst) == p as usize {
            let b = BASE[i].load(SeqCst);
            let t = TOTAL[i].load(SeqCst);
            LIVE_BYTES.fetch_sub(SIZE[i].load(SeqCst), SeqCst);
            PTR[i].store(0, SeqCst);
            LIVE_BLOCKS.fetch_sub(1, SeqCst);
            FREED[FREED_NEXT.fetch_add(1, SeqCst) % 64].store(p as usize, SeqCst);
            libc::munmap(b as *mut _, t);
            return true;
        }
    }
    check_double_free(p);
    false
}

unsafe impl GlobalAlloc for G {
    unsafe fn alloc(&self, l: Layout) -> *mut u8 {
        let m = MODE.load(SeqCst);
        if m == 0 {
            forget_reused(System.alloc(l))
        } else {
            galloc(l, m, false)
        }
    }
    unsafe fn alloc_zeroed(&self, l: Layout) -> *mut u8 {
        let m = MODE.load(SeqCst);
        if m == 0 {
            forget_reused(System.alloc_zeroed(l))
        } else {
            galloc(l, m, true)
        }
    }
    unsafe fn dealloc(&self, p: *mut u8, l: Layout) {
        if !gfree(p) {
            System.dealloc(p, l)
        }
    }
    unsafe fn realloc(&self, p: *mut u8, l: Layout, new: usize) -> *mut u8 {
        let nl = Layout::from_size_align_unchecked(new, l.align());
        let np = self.alloc(nl);
        if np.is_null() {
            return np;
        }
        std::ptr::copy_nonoverlapping(p, np, l.size().min(new));
        self.dealloc(p, l);
        np
    }
}
