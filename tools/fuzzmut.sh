#!/bin/bash
# Sensitivity of a libFuzzer target: build it against a mutated scratch worktree of /repo and run it.
#   tools/fuzzmut.sh <name> <patch.diff> <target> [secs=240] [jobs=8]
# Neither /repo nor /verif is modified (copy of /verif/fuzz under /tmp/fz/<name>, cargo `paths` override).
set -u
NAME=$1; PATCH=$(realpath "$2"); TARGET=$3; SECS=${4:-240}; JOBS=${5:-8}
D=/tmp/fz/$NAME
rm -rf "$D"; git -C /repo worktree prune; mkdir -p "$D"
git -C /repo worktree add -q --detach "$D/repo" HEAD || exit 2
trap 'git -C /repo worktree remove --force "$D/repo" 2>/dev/null; rm -rf "$D"' EXIT
git -C "$D/repo" apply "$PATCH" || { echo "FUZZMUT $NAME: patch does not apply"; exit 2; }
mkdir -p "$D/fuzz/.cargo"
cp -r /verif/fuzz/fuzz_targets /verif/fuzz/Cargo.lock "$D/fuzz/"
sed 's#path = "../harness"#path = "/verif/harness"#' /verif/fuzz/Cargo.toml > "$D/fuzz/Cargo.toml"
printf '[net]\noffline = true\npaths = ["%s"]\n' "$D/repo" > "$D/fuzz/.cargo/config.toml"
cd "$D/fuzz"
cargo +nightly fuzz build --fuzz-dir "$D/fuzz" "$TARGET" > "$D/build.log" 2>&1 || { echo "FUZZMUT $NAME: build failed"; tail -20 "$D/build.log"; exit 2; }
BIN="$D/fuzz/target/x86_64-unknown-linux-gnu/release/$TARGET"
START=$(date +%s)
for j in $(seq 1 "$JOBS"); do
  mkdir -p "$D/job$j/corpus"
  for k in $(seq 0 23); do head -c $((64 + 16 * k)) /dev/urandom > "$D/job$j/corpus/seed$k"; done
  "$BIN" "$D/job$j/corpus" -max_total_time="$SECS" -seed="$j" -len_control=0 -max_len=1024 -timeout=20 -artifact_prefix="$D/job$j/" > /dev/null 2> "$D/job$j/log.txt" &
done
wait
END=$(date +%s)
N=$(ls "$D"/job*/crash-* "$D"/job*/timeout-* 2>/dev/null | wc -l)
echo "FUZZMUT $NAME target=$TARGET jobs=$JOBS wall=$((END-START))s crash_inputs=$N"
grep -h "VIOLATION" "$D"/job*/log.txt | cut -c1-300 | sort | uniq -c | sort -rn | head -5
for j in $(seq 1 "$JOBS"); do grep -h "^Done\|number_of_executed_units" "$D/job$j/log.txt" | head -1; done | tr '\n' ' '; echo
