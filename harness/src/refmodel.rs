//! Canonical Brainfuck semantics, written for obviousness. This is the trusted
//! oracle for C01-C08, C10, C12, C13, C16.
//!
//! * cells wrap modulo 2^bits, the tape is unbounded both ways and all-zero,
//! * `,` logs an `In` event and stores the next input byte, or 0 at end of input,
//! * `.` logs `Out(low 8 bits)`,
//! * every other character is a comment.
//!
//! Besides the event list the run is classified (`Fate`):
//! `Halt`, `Diverges` (an entire machine state was seen twice at a loop
//! back-edge, so the run provably never ends) or `Unknown` (step limit reached).

use serde::{Deserialize, Serialize};

#[derive(Clone, Copy, PartialEq, Eq, Debug, Hash, Serialize, Deserialize)]
pub enum Ev {
    In,
    Out(u8),
}

#[derive(Clone, Copy, PartialEq, Eq, Debug, Serialize, Deserialize)]
pub enum Fate {
    Halt,
    Diverges,
    Unknown,
}

#[derive(Clone, Debug)]
pub struct RefRun {
    pub fate: Fate,
    pub events: Vec<Ev>,
    pub steps: u64,
    pub min_ptr: i64,
    pub max_ptr: i64,
    /// Number of times a `]` jumped back (a loop body was entered again).
    pub back_edges: u64,
    /// Number of loops skipped at `[` that contain another loop.
    pub skipped_nested: u32,
    /// Number of `+` on the maximum value or `-` on zero.
    pub wraps: u64,
    /// Number of `,` executed after the input was exhausted.
    pub eof_reads: u32,
    /// Maximum dynamic loop nesting reached.
    pub max_depth: u32,
    /// For `Diverges`: number of events produced inside one period of the cycle
    /// (0 means the divergent loop is silent, so the event list is complete).
    pub cycle_events: usize,
    /// For `Diverges`: index into events where the detected cycle was entered (snapshot point).
    pub cycle_start_events: usize,
    /// For `Halt`: where the pointer ends and which cells are non-zero then (full-width values).
    pub final_ptr: i64,
    pub final_tape: Vec<(i64, u64)>,
}

pub fn ev_string(evs: &[Ev]) -> String {
    let mut s = String::with_capacity(evs.len() * 2);
    for e in evs {
        match e {
            Ev::In => s.push('i'),
            Ev::Out(b) => {
                s.push_str(&format!("{:02x}", b));
            }
        }
        s.push(' ');
    }
    s.pop();
    s
}

/// Brackets balanced (as the parser requires)?
pub fn balanced(code: &str) -> bool {
    let mut d = 0i64;
    for c in code.bytes() {
        if c == b'[' {
            d += 1
        } else if c == b']' {
            d -= 1;
            if d < 0 {
                return false;
            }
        }
    }
    d == 0
}

struct Tape {
    cells: Vec<u64>,
    origin: i64,
    hash: u64,
}

#[inline]
fn mix(idx: i64, val: u64) -> u64 {
    if val == 0 {
        return 0;
    }
    let mut x = (idx as u64)
        .wrapping_mul(0x9E37_79B9_7F4A_7C15)
        .wrapping_add(val.wrapping_mul(0xC2B2_AE3D_27D4_EB4F))
        ^ 0x1656_67B1_9E37_79F9;
    x ^= x >> 29;
    x = x.wrapping_mul(0xBF58_476D_1CE4_E5B9);
    x ^= x >> 32;
    x
}

impl Tape {
    fn new() -> Tape {
        Tape { cells: vec![0; 64], origin: 32, hash: 0 }
    }
    #[inline]
    fn get(&self, ptr: i64) -> u64 {
        let i = ptr + self.origin;
        if i < 0 || i as usize >= self.cells.len() {
            0
        } else {
            self.cells[i as usize]
        }
    }
    fn set(&mut self, ptr: i64, val: u64) {
        let mut i = ptr + self.origin;
        if i < 0 {
            let grow = self.cells.len().max((-i) as usize + 16);
            let mut nt = vec![0u64; grow];
            nt.extend_from_slice(&self.cells);
            self.cells = nt;
            self.origin += grow as i64;
            i = ptr + self.origin;
        } else if i as usize >= self.cells.len() {
            let nl = (self.cells.len() * 2).max(i as usize + 16);
            self.cells.resize(nl, 0);
        }
        let old = self.cells[i as usize];
        self.hash = self.hash.wrapping_sub(mix(ptr, old)).wrapping_add(mix(ptr, val));
        self.cells[i as usize] = val;
    }
    /// Non-zero cells as (index, value), sorted.
    fn snapshot(&self) -> Vec<(i64, u64)> {
        self.cells
            .iter()
            .enumerate()
            .filter(|(_, v)| **v != 0)
            .map(|(i, v)| (i as i64 - self.origin, *v))
            .collect()
    }
}

pub fn run(code: &str, input: &[u8], bits: u32, max_steps: u64) -> RefRun {
    run_opts(code, input, bits, max_steps, true)
}

pub fn run_opts(code: &str, input: &[u8], bits: u32, max_steps: u64, detect_cycles: bool) -> RefRun {
    let code = code.as_bytes();
    let mask: u64 = if bits == 64 { u64::MAX } else { (1u64 << bits) - 1 };
    let mut jump = vec![0usize; code.len()];
    let mut contains_loop = vec![false; code.len()];
    {
        let mut st: Vec<(usize, bool)> = vec![];
        for (i, &c) in code.iter().enumerate() {
            if c == b'[' {
                st.push((i, false))
            } else if c == b']' {
                let (j, inner) = st.pop().expect("refmodel: unbalanced program");
                jump[i] = j;
                jump[j] = i;
                contains_loop[j] = inner;
                if let Some(top) = st.last_mut() {
                    top.1 = true;
                }
            }
        }
        assert!(st.is_empty(), "refmodel: unbalanced program");
    }
    let mut tape = Tape::new();
    let mut r = RefRun {
        fate: Fate::Halt,
        events: vec![],
        steps: 0,
        min_ptr: 0,
        max_ptr: 0,
        back_edges: 0,
        skipped_nested: 0,
        wraps: 0,
        eof_reads: 0,
        max_depth: 0,
        cycle_events: 0,
        cycle_start_events: 0,
        final_ptr: 0,
        final_tape: vec![],
    };
    let (mut ptr, mut ip, mut pc) = (0i64, 0usize, 0usize);
    let mut depth = 0u32;
    // Brent-style cycle detection: keep one snapshot, refresh it at 2^k steps.
    struct Snap {
        pc: usize,
        ptr: i64,
        ip: usize,
        hash: u64,
        tape: Vec<(i64, u64)>,
        events: usize,
    }
    let mut snap: Option<Snap> = None;
    let mut next_snap = 16u64;
    while pc < code.len() {
        r.steps += 1;
        if r.steps > max_steps {
            r.fate = Fate::Unknown;
            return r;
        }
        match code[pc] {
            b'+' => {
                let v = tape.get(ptr);
                if v == mask {
                    r.wraps += 1
                }
                tape.set(ptr, v.wrapping_add(1) & mask);
            }
            b'-' => {
                let v = tape.get(ptr);
                if v == 0 {
                    r.wraps += 1
                }
                tape.set(ptr, v.wrapping_sub(1) & mask);
            }
            b'>' => {
                ptr += 1;
                r.max_ptr = r.max_ptr.max(ptr)
            }
            b'<' => {
                ptr -= 1;
                r.min_ptr = r.min_ptr.min(ptr)
            }
            b'.' => r.events.push(Ev::Out(tape.get(ptr) as u8)),
            b',' => {
                r.events.push(Ev::In);
                let v = if ip < input.len() {
                    ip += 1;
                    input[ip - 1]
                } else {
                    r.eof_reads += 1;
                    0
                };
                tape.set(ptr, v as u64);
            }
            b'[' => {
                if tape.get(ptr) == 0 {
                    if contains_loop[pc] {
                        r.skipped_nested += 1;
                    }
                    pc = jump[pc]
                } else {
                    depth += 1;
                    r.max_depth = r.max_depth.max(depth);
                }
            }
            b']' => {
                if tape.get(ptr) != 0 {
                    pc = jump[pc];
                    r.back_edges += 1;
                    if detect_cycles {
                        let ipn = ip.min(input.len());
                        if let Some(s) = &snap {
                            if s.pc == pc && s.ptr == ptr && s.ip == ipn && s.hash == tape.hash && s.tape == tape.snapshot() {
                                r.fate = Fate::Diverges;
                                r.cycle_events = r.events.len() - s.events;
                                r.cycle_start_events = s.events;
                                return r;
                            }
                        }
                        if r.steps >= next_snap {
                            snap = Some(Snap { pc, ptr, ip: ipn, hash: tape.hash, tape: tape.snapshot(), events: r.events.len() });
                            next_snap = next_snap.saturating_mul(2);
                        }
                    }
                } else {
                    depth = depth.saturating_sub(1);
                }
            }
            _ => {}
        }
        pc += 1;
    }
    r.fate = Fate::Halt;
    r.final_ptr = ptr;
    r.final_tape = tape.snapshot();
    r
}

/// Brainfuck text that, appended to a halting program, takes the value the canonical run leaves in
/// each (non-zero, small in magnitude) cell out again and counts the cells in which anything is
/// left; it ends by printing that count - 0 under canonical semantics at this width. `.` shows
/// only the low 8 bits of a cell; this makes all the others observable.
pub fn probe_epilogue(r: &RefRun, bits: u32) -> Option<String> {
    if r.fate != Fate::Halt || r.final_tape.is_empty() {
        return None;
    }
    let modulus: u128 = 1u128 << bits;
    let flag = r.max_ptr + 2;
    let mut s = String::new();
    let mut cur = r.final_ptr;
    let mut go = |s: &mut String, cur: &mut i64, to: i64| {
        let d = to - *cur;
        for _ in 0..d.abs() {
            s.push(if d > 0 { '>' } else { '<' })
        }
        *cur = to;
    };
    let mut probed = 0;
    for &(cell, v) in r.final_tape.iter().take(40) {
        let up = (modulus - v as u128) as u64; // number of '+' that bring the cell back to 0
        let (ch, n) = if (v as u128) <= up as u128 { ('-', v) } else { ('+', up) };
        if n > 600 {
            continue;
        }
        go(&mut s, &mut cur, cell);
        for _ in 0..n {
            s.push(ch)
        }
        s.push_str("[[-]");
        go(&mut s, &mut cur, flag);
        s.push('+');
        go(&mut s, &mut cur, cell);
        s.push(']');
        probed += 1;
    }
    if probed == 0 || s.len() > 20_000 {
        return None;
    }
    go(&mut s, &mut cur, flag);
    s.push('.');
    Some(s)
}

#[cfg(test)]
mod tests {
    use super::*;
    #[test]
    fn hello() {
        let r = run("++++++[>+++++<-]>++[>++<-]++++[>++<-]>[.>]", &[], 8, 10_000);
        assert_eq!(r.fate, Fate::Halt);
        assert_eq!(r.events, vec![Ev::Out(b'H')]);
    }
    #[test]
    fn diverges() {
        assert_eq!(run("+[]", &[], 8, 10_000).fate, Fate::Diverges);
        assert_eq!(run("+[>+<]", &[], 8, 100_000).fate, Fate::Diverges);
        let r = run("+[.]", &[], 8, 10_000);
        assert_eq!(r.fate, Fate::Diverges);
        assert!(r.cycle_events > 0);
        assert_eq!(run("+[>+]", &[], 8, 10_000).fate, Fate::Unknown);
        assert_eq!(run(",[.,]", &[1, 2], 8, 10_000).fate, Fate::Halt);
    }
    #[test]
    fn widths() {
        // [+] wraps after 2^bits - 1 increments
        assert_eq!(run("+[+]", &[], 8, 10_000).fate, Fate::Halt);
        assert_eq!(run("+[+]", &[], 16, 1_000_000).fate, Fate::Halt);
        assert_eq!(run("-.", &[], 16, 100).events, vec![Ev::Out(255)]);
    }
}
