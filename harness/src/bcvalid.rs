//! Static validator for bytecode programs (C11): a validity predicate over the
//! `bc::Program` the executors hold, no execution involved.
//!
//! Checked: `live.len() == insts.len()`; `min <= 0 <= max`; every branch target
//! within `0..=len`; every tape operand inside `[min, max]`; `MemZero` only
//! with fusion; destinations never `Imm`/`MemZero`; every `Tmp < temps`;
//! forward *must* analysis over the CFG: no temporary read before written on
//! any path; backward *may* liveness: for every non-branch instruction i and
//! register temporary t (< number of registers) that is live-out of i and not
//! defined by i, bit t of `live[i]` is set.

use hpbf::bc::{self, Instr as BI, Loc};
use hpbf::CellType;

fn srcs_dst<C: CellType>(i: &BI<C>) -> (Vec<Loc<C>>, Option<Loc<C>>) {
    match *i {
        BI::Add(d, a, b) | BI::Sub(d, a, b) | BI::Mul(d, a, b) => (vec![a, b], Some(d)),
        BI::Copy(d, a) => (vec![a], Some(d)),
        _ => (vec![], None),
    }
}

#[derive(Default, Debug, Clone)]
pub struct Report {
    /// liveness obligations discharged
    pub obligations: usize,
    /// maximum number of register temporaries that had to be declared live at one instruction
    pub max_live: usize,
    /// a register temporary is live across a runtime-calling instruction (Inp/Out/Mov/Scan)
    pub live_across_call: bool,
    /// a temporary is live across a branch target
    pub live_across_branch_target: bool,
    pub branches: usize,
}

pub fn validate<C: CellType>(p: &bc::Program<C>, num_regs: usize, fuse: bool) -> Result<Report, String> {
    let n = p.insts.len();
    if p.live.len() != n {
        return Err(format!("live has {} entries for {} instructions", p.live.len(), n));
    }
    if !(p.min_accessed <= 0 && 0 <= p.max_accessed) {
        return Err(format!("access window [{}, {}] does not contain 0", p.min_accessed, p.max_accessed));
    }
    let mut rep = Report::default();
    let mut succ: Vec<Vec<usize>> = vec![vec![]; n + 1];
    let mut is_target = vec![false; n + 1];
    for (i, ins) in p.insts.iter().enumerate() {
        let chk_mem = |m: isize| -> Result<(), String> {
            if m < p.min_accessed || m > p.max_accessed {
                Err(format!("instruction {i} `{ins:?}`: tape operand {m} outside the declared window [{}, {}]", p.min_accessed, p.max_accessed))
            } else {
                Ok(())
            }
        };
        match *ins {
            BI::BrZ(c, off) | BI::BrNZ(c, off) => {
                chk_mem(c)?;
                let t = i as isize + off;
                if t < 0 || t as usize > n {
                    return Err(format!("instruction {i} `{ins:?}`: branch target {t} outside 0..={n}"));
                }
                succ[i].push(t as usize);
                succ[i].push(i + 1);
                is_target[t as usize] = true;
                rep.branches += 1;
            }
            BI::Scan(c, _) => {
                chk_mem(c)?;
                succ[i].push(i + 1);
            }
            BI::Inp(m) | BI::Out(m) => {
                chk_mem(m)?;
                succ[i].push(i + 1);
            }
            BI::Noop | BI::Mov(_) => succ[i].push(i + 1),
            _ => {
                let (s, d) = srcs_dst(ins);
                for l in s.iter().chain(d.iter()) {
                    match *l {
                        Loc::Mem(m) => chk_mem(m)?,
                        Loc::MemZero(m) => {
                            if !fuse {
                                return Err(format!("instruction {i} `{ins:?}`: MemZero operand although fusion is off"));
                            }
                            chk_mem(m)?
                        }
                        Loc::Tmp(t) => {
                            if t >= p.temps {
                                return Err(format!("instruction {i} `{ins:?}`: temporary {t} >= declared count {}", p.temps));
                            }
                        }
                        Loc::Imm(_) => {}
                    }
                }
                if let Some(Loc::Imm(_)) | Some(Loc::MemZero(_)) = d {
                    return Err(format!("instruction {i} `{ins:?}`: destination is not writable"));
                }
                succ[i].push(i + 1);
            }
        }
    }
    let nt = p.temps;
    // definite assignment (forward must analysis)
    let mut defin: Vec<Option<Vec<bool>>> = vec![None; n + 1];
    defin[0] = Some(vec![false; nt]);
    let mut work = vec![0usize];
    while let Some(i) = work.pop() {
        if i >= n {
            continue;
        }
        let cur = defin[i].clone().unwrap();
        let (s, d) = srcs_dst(&p.insts[i]);
        for l in &s {
            if let Loc::Tmp(t) = *l {
                if !cur[t] {
                    return Err(format!("instruction {i} `{:?}`: temporary {t} is read before it is written on some path", p.insts[i]));
                }
            }
        }
        let mut out = cur;
        if let Some(Loc::Tmp(t)) = d {
            out[t] = true;
        }
        for &j in &succ[i] {
            let new = match &defin[j] {
                None => Some(out.clone()),
                Some(old) => {
                    let m: Vec<bool> = old.iter().zip(out.iter()).map(|(a, b)| *a && *b).collect();
                    if &m != old {
                        Some(m)
                    } else {
                        None
                    }
                }
            };
            if let Some(nw) = new {
                defin[j] = Some(nw);
                work.push(j);
            }
        }
    }
    // liveness (backward may analysis)
    let mut livein: Vec<Vec<bool>> = vec![vec![false; nt]; n + 1];
    let mut changed = true;
    while changed {
        changed = false;
        for i in (0..n).rev() {
            let mut out = vec![false; nt];
            for &j in &succ[i] {
                for t in 0..nt {
                    if livein[j][t] {
                        out[t] = true
                    }
                }
            }
            let (s, d) = srcs_dst(&p.insts[i]);
            if let Some(Loc::Tmp(t)) = d {
                out[t] = false;
            }
            for l in &s {
                if let Loc::Tmp(t) = *l {
                    out[t] = true
                }
            }
            if out != livein[i] {
                livein[i] = out;
                changed = true;
            }
        }
    }
    for i in 0..=n {
        if is_target[i] && i < n && livein[i].iter().any(|x| *x) {
            rep.live_across_branch_target = true;
        }
    }
    for i in 0..n {
        if let BI::BrZ(..) | BI::BrNZ(..) = p.insts[i] {
            continue;
        }
        let mut out = vec![false; nt];
        for &j in &succ[i] {
            for t in 0..nt {
                if livein[j][t] {
                    out[t] = true
                }
            }
        }
        let (_, d) = srcs_dst(&p.insts[i]);
        let mut cnt = 0;
        for t in 0..nt.min(num_regs).min(16) {
            if out[t] && d != Some(Loc::Tmp(t)) {
                rep.obligations += 1;
                cnt += 1;
                if p.live[i] & (1 << t) == 0 {
                    return Err(format!("instruction {i} `{:?}`: register temporary {t} is needed afterwards but not declared live ({:#06x})", p.insts[i], p.live[i]));
                }
            }
        }
        if cnt > 0 {
            if let BI::Inp(_) | BI::Out(_) | BI::Mov(_) | BI::Scan(..) = p.insts[i] {
                rep.live_across_call = true;
            }
        }
        rep.max_live = rep.max_live.max(cnt);
    }
    Ok(rep)
}

pub fn same_program<C: CellType>(a: &bc::Program<C>, b: &bc::Program<C>) -> bool {
    a.temps == b.temps && a.min_accessed == b.min_accessed && a.max_accessed == b.max_accessed && a.live == b.live && a.insts == b.insts
}
