//! The engine: property trait, shard runner (one proptest TestRunner per
//! process), driver (spawns shards, merges their reports, writes evidence and
//! replay files, prints VIOLATION / KNOWN-FINDING lines).

use proptest::strategy::{BoxedStrategy, Strategy};
use proptest::test_runner::{Config, RngAlgorithm, TestCaseError, TestError, TestRng, TestRunner};
use serde::{de::DeserializeOwned, Deserialize, Serialize};
use std::cell::RefCell;
use std::collections::{BTreeMap, BTreeSet};
use std::fmt::Debug;
use std::time::Instant;

#[derive(Clone, Copy, PartialEq, Eq, Debug, Serialize, Deserialize)]
#[serde(rename_all = "lowercase")]
pub enum Tier {
    Quick,
    Thorough,
}

#[derive(Clone, Debug, Serialize, Deserialize)]
pub struct Fail {
    pub kind: String,
    pub detail: String,
    /// index of the failing configuration, where the case has several
    #[serde(default)]
    pub cfg: Option<usize>,
}

#[derive(Clone, Debug)]
pub enum Outcome {
    Pass { nontrivial: bool },
    /// generated case is outside the property's domain (counted, not an evaluation failure)
    Skip(&'static str),
    Fail(Fail),
    Inconclusive(String),
}

/// Per-shard statistics a check can add to.
#[derive(Default, Clone, Debug, Serialize, Deserialize)]
pub struct Stats {
    pub classes: BTreeMap<String, u64>,
    pub sets: BTreeMap<String, BTreeSet<String>>,
    pub maxima: BTreeMap<String, u64>,
}

impl Stats {
    pub fn class(&mut self, k: &str) {
        *self.classes.entry(k.to_string()).or_insert(0) += 1;
    }
    pub fn add(&mut self, k: &str, n: u64) {
        *self.classes.entry(k.to_string()).or_insert(0) += n;
    }
    pub fn set(&mut self, k: &str, v: &str) {
        self.sets.entry(k.to_string()).or_default().insert(v.to_string());
    }
    pub fn max(&mut self, k: &str, v: u64) {
        let e = self.maxima.entry(k.to_string()).or_insert(0);
        *e = (*e).max(v);
    }
    pub fn merge(&mut self, o: &Stats) {
        for (k, v) in &o.classes {
            *self.classes.entry(k.clone()).or_insert(0) += v;
        }
        for (k, v) in &o.sets {
            self.sets.entry(k.clone()).or_default().extend(v.iter().cloned());
        }
        for (k, v) in &o.maxima {
            self.max(k, *v);
        }
    }
}

pub trait Property {
    /// Generated (shrinkable) value.
    type Gen: Clone + Debug + 'static;
    /// Concrete, serialisable case: what the replay file holds.
    type Case: Serialize + DeserializeOwned + Clone + Debug;

    fn id(&self) -> &'static str;
    fn level(&self) -> &'static str {
        "exploration"
    }
    fn rule(&self) -> String;
    fn assumptions(&self) -> Vec<String>;
    /// Number of generated cases for a tier (whole run, all shards).
    fn cases(&self, tier: Tier) -> u64;
    fn strategy(&self, tier: Tier) -> BoxedStrategy<Self::Gen>;
    fn concretize(&self, g: &Self::Gen) -> Self::Case;
    fn check(&self, c: &Self::Case, stats: &mut Stats) -> Outcome;
    /// Post-shrink minimisation keeping the failure kind (default: none).
    fn minimize(&self, c: Self::Case, _fail: &Fail) -> Self::Case {
        c
    }
    /// Deterministic extra work besides generated cases (exhaustive sub-spaces,
    /// fixed probes). Returns failures as (case, fail).
    fn fixed_work(&self, _tier: Tier, _shard: usize, _shards: usize, _stats: &mut Stats) -> Vec<(Self::Case, Fail)> {
        vec![]
    }
    /// Floors on class counts (generator regression => exit 2), checked on the merged stats.
    fn floors(&self, _tier: Tier) -> Vec<(&'static str, u64)> {
        vec![]
    }
    fn exhaustive(&self, _tier: Tier) -> Option<bool> {
        None
    }
    /// Max samples to keep
    fn sample_limit(&self) -> usize {
        5
    }
    /// libFuzzer target (in /verif/fuzz) that attacks this property in the thorough tier.
    fn fuzz_target(&self) -> Option<&'static str> {
        None
    }
    /// Decode a libFuzzer input of that target into a case, to be re-judged by `check`.
    fn decode_fuzz(&self, _bytes: &[u8]) -> Option<Self::Case> {
        None
    }
    /// Build a case from a program text (for hand-written regression cases).
    fn case_from_text(&self, _program: &str, _input: &[u8], _bits: u32, _sel: [u32; 5]) -> Option<Self::Case> {
        None
    }
}

#[derive(Clone, Debug, Serialize, Deserialize)]
pub struct Finding {
    pub kind: String,
    pub detail: String,
    pub case: serde_json::Value,
    #[serde(default)]
    pub unshrunk: Option<serde_json::Value>,
}

#[derive(Clone, Debug, Serialize, Deserialize, Default)]
pub struct ShardReport {
    pub shard: usize,
    pub evaluations: u64,
    pub skipped: BTreeMap<String, u64>,
    pub nontrivial: u64,
    pub nontrivial_hashes: Vec<u64>,
    pub samples: Vec<serde_json::Value>,
    pub stats: Stats,
    pub findings: Vec<Finding>,
    pub inconclusive: Vec<String>,
    pub inconclusive_count: u64,
    pub wall_s: f64,
    pub error: Option<String>,
}

pub fn fnv(s: &str) -> u64 {
    let mut h: u64 = 0xcbf29ce484222325;
    for b in s.bytes() {
        h ^= b as u64;
        h = h.wrapping_mul(0x100000001b3);
    }
    h
}

pub fn seed_bytes(seed: u64, id: &str, shard: usize) -> [u8; 32] {
    let mut b = [0u8; 32];
    b[..8].copy_from_slice(&seed.to_le_bytes());
    b[8..16].copy_from_slice(&fnv(id).to_le_bytes());
    b[16..24].copy_from_slice(&(shard as u64).to_le_bytes());
    b[24..32].copy_from_slice(&fnv(&format!("{seed}/{id}/{shard}")).to_le_bytes());
    b
}

pub fn run_shard<P: Property>(p: &P, tier: Tier, seed: u64, shard: usize, shards: usize) -> ShardReport {
    let t0 = Instant::now();
    // VERIF_CASE_SCALE (default 1) scales the fixed case counts, e.g. for a longer soak or a smoke test
    let scale: f64 = std::env::var("VERIF_CASE_SCALE").ok().and_then(|s| s.parse().ok()).unwrap_or(1.0);
    let total = (p.cases(tier) as f64 * scale) as u64;
    let cases = (total / shards as u64 + if (shard as u64) < total % shards as u64 { 1 } else { 0 }) as u32;
    let rep = RefCell::new(ShardReport { shard, ..Default::default() });
    let hashes = RefCell::new(BTreeSet::<u64>::new());
    let failed = std::cell::Cell::new(false);
    let last_fail: RefCell<Option<Fail>> = RefCell::new(None);
    let first_fail_case: RefCell<Option<serde_json::Value>> = RefCell::new(None);

    // fixed work first (exhaustive sub-spaces)
    {
        let mut r = rep.borrow_mut();
        let mut stats = std::mem::take(&mut r.stats);
        for (case, f) in p.fixed_work(tier, shard, shards, &mut stats) {
            let case = p.minimize(case, &f);
            r.findings.push(Finding { kind: f.kind, detail: f.detail, case: serde_json::to_value(&case).unwrap(), unshrunk: None });
        }
        r.stats = stats;
    }

    if cases > 0 {
        let config = Config {
            cases,
            failure_persistence: None,
            max_shrink_iters: if tier == Tier::Quick { 1500 } else { 4000 },
            max_shrink_time: if tier == Tier::Quick { 90_000 } else { 300_000 },
            max_global_rejects: 1_000_000,
            ..Config::default()
        };
        let mut runner = TestRunner::new_with_rng(config, TestRng::from_seed(RngAlgorithm::ChaCha, &seed_bytes(seed, p.id(), shard)));
        let strat = p.strategy(tier);
        let res = runner.run(&strat, |g| {
            let t_case = Instant::now();
            if std::env::var_os("HV_TRACE").is_some() {
                let r = rep.borrow();
                eprintln!("[trace] t={:?} evals={} skipped={:?} failed={}", t0.elapsed(), r.evaluations, r.skipped, failed.get());
            }
            let case = p.concretize(&g);
            let counting = !failed.get();
            struct Trace<'a>(Instant, &'a dyn Fn() -> String);
            impl Drop for Trace<'_> {
                fn drop(&mut self) {
                    if std::env::var_os("HV_TRACE").is_some() && self.0.elapsed().as_millis() > 300 {
                        eprintln!("[trace] slow case {:?}: {}", self.0.elapsed(), (self.1)());
                    }
                }
            }
            let describe = || {
                let mut s = serde_json::to_string(&case).unwrap();
                s.truncate(600);
                s
            };
            let _trace = Trace(t_case, &describe);
            let mut scratch = Stats::default();
            let mut r = rep.borrow_mut();
            let out = if counting {
                let mut stats = std::mem::take(&mut r.stats);
                let o = p.check(&case, &mut stats);
                r.stats = stats;
                o
            } else {
                p.check(&case, &mut scratch)
            };
            match out {
                Outcome::Pass { nontrivial } => {
                    if counting {
                        r.evaluations += 1;
                        if nontrivial {
                            let js = serde_json::to_string(&case).unwrap();
                            // distinct counting is capped per shard (memory); beyond the cap the count is a lower bound
                            if hashes.borrow().len() < 60_000 && hashes.borrow_mut().insert(fnv(&js)) {
                                r.nontrivial += 1;
                                if r.samples.len() < p.sample_limit() {
                                    r.samples.push(serde_json::to_value(&case).unwrap());
                                }
                            }
                        }
                    }
                    Ok(())
                }
                Outcome::Skip(why) => {
                    if counting {
                        *r.skipped.entry(why.to_string()).or_insert(0) += 1;
                    }
                    Ok(())
                }
                Outcome::Inconclusive(why) => {
                    if counting {
                        r.evaluations += 1;
                        r.inconclusive_count += 1;
                        if r.inconclusive.len() < 5 {
                            r.inconclusive.push(format!("{why}: {}", serde_json::to_string(&case).unwrap()));
                        }
                    }
                    Ok(())
                }
                Outcome::Fail(f) => {
                    if counting {
                        r.evaluations += 1;
                        failed.set(true);
                        *first_fail_case.borrow_mut() = Some(serde_json::to_value(&case).unwrap());
                        if f.kind != "hang" && f.kind != "compile-hang" {
                            crate::judge::FAST_REJECT.store(true, std::sync::atomic::Ordering::Relaxed);
                        } else {
                            crate::judge::HANG_SHRINK.store(true, std::sync::atomic::Ordering::Relaxed);
                        }
                    } else if let Some(prev) = &*last_fail.borrow() {
                        // shrinking must preserve the failure kind
                        if prev.kind != f.kind {
                            return Ok(());
                        }
                    }
                    *last_fail.borrow_mut() = Some(f.clone());
                    Err(TestCaseError::fail(f.kind))
                }
            }
        });
        match res {
            Ok(()) => {}
            Err(TestError::Fail(_, g)) => {
                let case = p.concretize(&g);
                let f = last_fail.borrow().clone().unwrap();
                MIN_DEADLINE.with(|d| d.set(Some(Instant::now() + std::time::Duration::from_secs(if tier == Tier::Quick { 45 } else { 240 }))));
                let case = p.minimize(case, &f);
                MIN_DEADLINE.with(|d| d.set(None));
                // re-derive the detail from the minimal case, with full confirmation
                crate::judge::FAST_REJECT.store(false, std::sync::atomic::Ordering::Relaxed);
                crate::judge::HANG_SHRINK.store(false, std::sync::atomic::Ordering::Relaxed);
                let mut scratch = Stats::default();
                let unshrunk = first_fail_case.borrow().clone();
                match p.check(&case, &mut scratch) {
                    Outcome::Fail(f2) if f2.kind == f.kind => {
                        rep.borrow_mut().findings.push(Finding { kind: f2.kind, detail: f2.detail, case: serde_json::to_value(&case).unwrap(), unshrunk });
                    }
                    _ => {
                        // the shrunk case does not reproduce under full confirmation: report the original
                        let orig = unshrunk.clone().unwrap();
                        let (kind, detail) = match serde_json::from_value::<P::Case>(orig.clone()).ok().map(|c| p.check(&c, &mut scratch)) {
                            Some(Outcome::Fail(f3)) => (f3.kind, f3.detail),
                            _ => (f.kind.clone(), format!("{} (did not reproduce on re-check: flaky?)", f.detail)),
                        };
                        if kind == f.kind && !detail.contains("did not reproduce") {
                            rep.borrow_mut().findings.push(Finding { kind, detail, case: orig, unshrunk: None });
                        } else {
                            let mut r = rep.borrow_mut();
                            r.inconclusive_count += 1;
                            r.inconclusive.push(format!("failure did not reproduce: {detail}: {orig}"));
                        }
                    }
                }
            }
            Err(TestError::Abort(why)) => {
                rep.borrow_mut().error = Some(format!("proptest aborted: {why}"));
            }
        }
    }
    let mut r = rep.into_inner();
    r.nontrivial_hashes = hashes.into_inner().into_iter().collect();
    r.wall_s = t0.elapsed().as_secs_f64();
    r
}

/// Replay one stored case, bypassing proptest.
pub fn replay_case<P: Property>(p: &P, v: &serde_json::Value) -> Result<Outcome, String> {
    let case: P::Case = serde_json::from_value(v.clone()).map_err(|e| format!("replay file does not hold a {} case: {e}", p.id()))?;
    let mut stats = Stats::default();
    Ok(p.check(&case, &mut stats))
}

// ------------------------------------------------------------------ ddmin

/// Text-level delta debugging for Brainfuck programs: remove chunks, unwrap
/// matching bracket pairs; `test` returns true when the candidate still fails
/// in the same way. Candidates are always bracket-balanced.
thread_local! {
    /// Wall-clock limit for post-shrink minimisation (a limit hit only ends minimisation early).
    pub static MIN_DEADLINE: std::cell::Cell<Option<Instant>> = std::cell::Cell::new(None);
}

pub fn past_deadline() -> bool {
    MIN_DEADLINE.with(|d| d.get().map(|t| Instant::now() > t).unwrap_or(false))
}

pub fn ddmin_program(mut code: String, budget: &mut u32, test: &mut dyn FnMut(&str) -> bool) -> String {
    use crate::refmodel::balanced;
    loop {
        let mut progress = false;
        let mut sz = (code.len() / 2).max(1);
        while sz >= 1 {
            let mut i = 0;
            while i + sz <= code.len() {
                if *budget == 0 || past_deadline() {
                    return code;
                }
                if !code.is_char_boundary(i) || !code.is_char_boundary(i + sz) {
                    i += 1;
                    continue;
                }
                let cand = format!("{}{}", &code[..i], &code[i + sz..]);
                if balanced(&cand) {
                    *budget -= 1;
                    if test(&cand) {
                        code = cand;
                        progress = true;
                        continue;
                    }
                }
                i += 1;
            }
            if sz == 1 {
                break;
            }
            sz /= 2;
        }
        // unwrap matching bracket pairs
        let mut i = 0;
        while i < code.len() {
            if code.as_bytes()[i] == b'[' {
                let mut d = 0;
                let mut j = i;
                loop {
                    let c = code.as_bytes()[j];
                    if c == b'[' {
                        d += 1
                    } else if c == b']' {
                        d -= 1;
                        if d == 0 {
                            break;
                        }
                    }
                    j += 1;
                }
                if *budget == 0 || past_deadline() {
                    return code;
                }
                let cand = format!("{}{}{}", &code[..i], &code[i + 1..j], &code[j + 1..]);
                *budget -= 1;
                if test(&cand) {
                    code = cand;
                    progress = true;
                    continue;
                }
            }
            i += 1;
        }
        if !progress {
            break;
        }
    }
    code
}

pub fn ddmin_bytes(mut v: Vec<u8>, budget: &mut u32, test: &mut dyn FnMut(&[u8]) -> bool) -> Vec<u8> {
    let mut k = 0;
    while k < v.len() {
        if *budget == 0 || past_deadline() {
            return v;
        }
        let mut cand = v.clone();
        cand.remove(k);
        *budget -= 1;
        if test(&cand) {
            v = cand;
        } else {
            k += 1
        }
    }
    for k in 0..v.len() {
        for val in [0u8, 1, 2, 3] {
            if v[k] > val {
                if *budget == 0 {
                    return v;
                }
                let mut cand = v.clone();
                cand[k] = val;
                *budget -= 1;
                if test(&cand) {
                    v = cand;
                    break;
                }
            }
        }
    }
    v
}

pub fn strategy_of<T: Debug + Clone + 'static>(s: impl Strategy<Value = T> + 'static) -> BoxedStrategy<T> {
    s.boxed()
}

// ------------------------------------------------------------------ driver

#[derive(Clone, Copy, PartialEq, Eq, Debug)]
pub enum DbgShare {
    /// all shards run the release build
    None,
    /// every fourth shard runs the debug-assertions build
    Quarter,
    /// every shard is run in both builds (same seeds, hence same cases)
    Both,
}

pub struct DriveOpts {
    pub tier: Tier,
    pub seed: u64,
    pub shards: usize,
    pub verif_dir: std::path::PathBuf,
    pub dbg_share: DbgShare,
}

fn exe_for(profile: &str) -> std::path::PathBuf {
    let me = std::env::current_exe().expect("current_exe");
    // .../target/<profile>/hv
    let target = me.parent().and_then(|p| p.parent()).expect("target dir").to_path_buf();
    target.join(profile).join("hv")
}

#[derive(Clone, Debug)]
struct KnownEntry {
    open: bool,
    property: String,
    replay: Option<String>,
    what: String,
}

fn load_known(verif: &std::path::Path) -> Vec<KnownEntry> {
    let mut v = vec![];
    if let Ok(s) = std::fs::read_to_string(verif.join("known_findings.txt")) {
        for line in s.lines() {
            let line = line.trim();
            let (open, rest) = if let Some(r) = line.strip_prefix("open:") {
                (true, r)
            } else if let Some(r) = line.strip_prefix("fixed:") {
                (false, r)
            } else {
                continue;
            };
            let mut property = String::new();
            let mut replay = None;
            let mut what = vec![];
            for tok in rest.split_whitespace() {
                if let Some(p) = tok.strip_prefix("property=") {
                    property = p.to_string()
                } else if let Some(p) = tok.strip_prefix("replay=") {
                    replay = Some(p.to_string())
                } else {
                    what.push(tok)
                }
            }
            v.push(KnownEntry { open, property, replay, what: what.join(" ") });
        }
    }
    v
}

fn write_json(path: &std::path::Path, v: &serde_json::Value) {
    if let Some(d) = path.parent() {
        let _ = std::fs::create_dir_all(d);
    }
    std::fs::write(path, serde_json::to_string_pretty(v).unwrap() + "\n").expect("write json");
}

/// Returns the process exit code.
pub fn drive<P: Property>(p: &P, o: &DriveOpts) -> i32 {
    let t0 = Instant::now();
    let id = p.id();
    let known = load_known(&o.verif_dir);
    let mut violations: Vec<(String, String)> = vec![]; // (replay path, summary)
    let mut known_lines: Vec<String> = vec![];
    let mut infra_errors: Vec<String> = vec![];

    // ---- replay tier: stored regression cases first
    let corpus_dir = o.verif_dir.join("corpus").join(id);
    let mut corpus_files: Vec<std::path::PathBuf> = std::fs::read_dir(&corpus_dir).map(|d| d.filter_map(|e| e.ok()).map(|e| e.path()).filter(|p| p.extension().map(|e| e == "json").unwrap_or(false)).collect()).unwrap_or_default();
    corpus_files.sort();
    let mut replayed = 0u64;
    let mut corpus_stats = Stats::default();
    for f in &corpus_files {
        let txt = match std::fs::read_to_string(f) {
            Ok(t) => t,
            Err(e) => {
                infra_errors.push(format!("cannot read {}: {e}", f.display()));
                continue;
            }
        };
        let v: serde_json::Value = match serde_json::from_str(&txt) {
            Ok(v) => v,
            Err(e) => {
                infra_errors.push(format!("bad json {}: {e}", f.display()));
                continue;
            }
        };
        let case_v = v.get("case").cloned().unwrap_or(v.clone());
        let case: P::Case = match serde_json::from_value(case_v) {
            Ok(c) => c,
            Err(e) => {
                infra_errors.push(format!("{}: not a {id} case: {e}", f.display()));
                continue;
            }
        };
        replayed += 1;
        let rel = f.strip_prefix(&o.verif_dir).unwrap_or(f).to_string_lossy().to_string();
        let open = known.iter().find(|k| k.open && k.property == id && k.replay.as_deref() == Some(rel.as_str()));
        match p.check(&case, &mut corpus_stats) {
            Outcome::Fail(fl) => {
                if let Some(k) = open {
                    known_lines.push(format!("KNOWN-FINDING: property={id} {} ({}: {})", k.what, rel, fl.kind));
                } else {
                    violations.push((f.to_string_lossy().to_string(), format!("stored regression case fails: {}: {}", fl.kind, fl.detail)));
                }
            }
            _ => {}
        }
    }

    // ---- generated tier: shards in subprocesses
    let mut children = vec![];
    let mut plan: Vec<(usize, &str)> = vec![];
    for i in 0..o.shards {
        match o.dbg_share {
            DbgShare::None => plan.push((i, "release")),
            DbgShare::Quarter => plan.push((i, if i % 4 == 3 { "dbgassert" } else { "release" })),
            DbgShare::Both => {
                plan.push((i, "release"));
                plan.push((i, "dbgassert"));
            }
        }
    }
    let shards_n = o.shards;
    for (i, profile) in &plan {
        let exe = exe_for(profile);
        let child = std::process::Command::new(&exe)
            .args(["shard", id, if o.tier == Tier::Quick { "quick" } else { "thorough" }, &o.seed.to_string(), &i.to_string(), &shards_n.to_string()])
            .stdin(std::process::Stdio::null())
            .stdout(std::process::Stdio::piped())
            .stderr(std::process::Stdio::inherit())
            .spawn();
        match child {
            Ok(c) => children.push((*i, *profile, c)),
            Err(e) => infra_errors.push(format!("cannot start {}: {e}", exe.display())),
        }
    }
    let mut reports: Vec<(usize, &str, ShardReport)> = vec![];
    for (i, profile, c) in children {
        match c.wait_with_output() {
            Ok(out) => {
                let txt = String::from_utf8_lossy(&out.stdout);
                match txt.lines().rev().find(|l| l.starts_with('{')).map(|l| serde_json::from_str::<ShardReport>(l)) {
                    Some(Ok(r)) => reports.push((i, profile, r)),
                    other => infra_errors.push(format!("shard {i} ({profile}) gave no report (status {:?}): {:?}", out.status, other.map(|r| r.err().map(|e| e.to_string())))),
                }
            }
            Err(e) => infra_errors.push(format!("shard {i}: {e}")),
        }
    }

    // ---- merge
    let mut evaluations = replayed;
    let mut skipped: BTreeMap<String, u64> = BTreeMap::new();
    let mut hashes = BTreeSet::new();
    let mut samples = vec![];
    let mut stats = corpus_stats;
    let mut inconclusive = vec![];
    let mut inconclusive_count = 0;
    let mut per_profile: BTreeMap<String, u64> = BTreeMap::new();
    for (_, profile, r) in &reports {
        evaluations += r.evaluations;
        *per_profile.entry(profile.to_string()).or_insert(0) += r.evaluations;
        for (k, v) in &r.skipped {
            *skipped.entry(k.clone()).or_insert(0) += v;
        }
        hashes.extend(r.nontrivial_hashes.iter().copied());
        for s in &r.samples {
            if samples.len() < p.sample_limit().max(3) {
                samples.push(s.clone())
            }
        }
        stats.merge(&r.stats);
        inconclusive_count += r.inconclusive_count;
        for s in &r.inconclusive {
            if inconclusive.len() < 8 {
                inconclusive.push(s.clone())
            }
        }
        if let Some(e) = &r.error {
            infra_errors.push(format!("shard {}: {e}", r.shard));
        }
        for f in &r.findings {
            // distinct shrunk cases only
            let h = fnv(&serde_json::to_string(&f.case).unwrap());
            let path = o.verif_dir.join("findings").join(id).join(format!("{:016x}.json", h));
            let file = serde_json::json!({"property": id, "kind": f.kind, "detail": f.detail, "profile": profile, "seed": o.seed, "case": f.case, "unshrunk": f.unshrunk});
            write_json(&path, &file);
            let ps = path.to_string_lossy().to_string();
            if !violations.iter().any(|(q, _)| *q == ps) {
                violations.push((ps, format!("{}: {}", f.kind, f.detail)));
            }
        }
    }

    // ---- coverage-guided tier (thorough only): libFuzzer campaign, crashes re-judged by the normal check
    let mut fuzz_info = serde_json::json!(null);
    if o.tier == Tier::Thorough && violations.is_empty() {
        if let Some(target) = p.fuzz_target() {
            let (info, found, errs) = run_fuzz(p, target, o);
            fuzz_info = info;
            infra_errors.extend(errs);
            for f in found {
                let h = fnv(&serde_json::to_string(&f.case).unwrap());
                let path = o.verif_dir.join("findings").join(id).join(format!("{:016x}.json", h));
                write_json(&path, &serde_json::json!({"property": id, "kind": f.kind, "detail": f.detail, "profile": "release", "seed": o.seed, "found_by": format!("libFuzzer target {target}"), "case": f.case}));
                violations.push((path.to_string_lossy().to_string(), format!("{}: {}", f.kind, f.detail)));
            }
        }
    }

    // ---- floors
    let mut floor_misses = vec![];
    if violations.is_empty() {
        // floors are stated for the quick tier; other work sizes scale them (sets of distinct things do not grow)
        let scale_env: f64 = std::env::var("VERIF_CASE_SCALE").ok().and_then(|s| s.parse().ok()).unwrap_or(1.0);
        let ratio = (p.cases(o.tier) as f64 * scale_env) / (p.cases(Tier::Quick).max(1) as f64);
        for (k, min) in p.floors(Tier::Quick) {
            let is_set = stats.sets.contains_key(k) || k.starts_with("exhaustive");
            let min = if is_set || o.tier == Tier::Quick && scale_env == 1.0 { min } else { (min as f64 * ratio * 0.75) as u64 };
            // distinct counting is capped per shard, so the floor on it is capped too
            let min = if k == "nontrivial" { min.min(500_000) } else { min };
            let have = if k == "nontrivial" { hashes.len() as u64 } else { stats.classes.get(k).copied().unwrap_or(0).max(stats.sets.get(k).map(|s| s.len() as u64).unwrap_or(0)) };
            if have < min {
                floor_misses.push(format!("class '{k}': {have} < floor {min}"));
            }
        }
    }

    // ---- evidence
    let mut coverage = serde_json::json!({
        "evaluations": evaluations,
        "distinct_nontrivial": hashes.len(),
        "rule": p.rule(),
        "samples": samples,
        "replayed_corpus_cases": replayed,
        "skipped": skipped,
        "classes": stats.classes,
        "maxima": stats.maxima,
        "sets": stats.sets.iter().map(|(k, v)| (k.clone(), serde_json::json!({"count": v.len(), "members": v.iter().take(400).collect::<Vec<_>>()}))).collect::<BTreeMap<_, _>>(),
        "evaluations_per_build_profile": per_profile,
        "inconclusive": inconclusive_count,
        "inconclusive_cases": inconclusive,
        "shards": plan.len(),
    });
    if !fuzz_info.is_null() {
        coverage["libfuzzer"] = fuzz_info;
    }
    if let Some(e) = p.exhaustive(o.tier) {
        coverage["exhaustive"] = serde_json::json!(e);
    }
    let evidence = serde_json::json!({
        "property_id": id,
        "tier": if o.tier == Tier::Quick { "quick" } else { "thorough" },
        "seed": o.seed,
        "level": p.level(),
        "coverage": coverage,
        "assumptions": p.assumptions(),
        "wall_s": t0.elapsed().as_secs_f64(),
        "violations": violations.len(),
        "known_findings_reported": known_lines.len(),
        "infrastructure_errors": infra_errors,
        "generator_floor_misses": floor_misses,
    });
    write_json(&o.verif_dir.join("evidence").join(format!("{id}.json")), &evidence);

    for l in &known_lines {
        println!("{l}");
    }
    for (path, what) in &violations {
        println!("VIOLATION property={id} replay={path}");
        println!("  {what}");
    }
    println!(
        "{id} {:?} seed={} evaluations={} distinct_nontrivial={} skipped={:?} inconclusive={} violations={} wall={:.1}s",
        o.tier,
        o.seed,
        evaluations,
        hashes.len(),
        skipped,
        inconclusive_count,
        violations.len(),
        t0.elapsed().as_secs_f64()
    );
    if !violations.is_empty() {
        return 1;
    }
    if !infra_errors.is_empty() || !floor_misses.is_empty() {
        for e in infra_errors.iter().chain(floor_misses.iter()) {
            eprintln!("CHECK-ERROR {id}: {e}");
        }
        return 2;
    }
    // inconclusive cases (a watchdog window hit on a loaded machine) do not change the exit status
    // while they stay rare; beyond 2 % the check has not done its job
    if inconclusive_count * 50 > evaluations.max(1) {
        eprintln!("CHECK-ERROR {id}: {inconclusive_count} inconclusive cases out of {evaluations}");
        return 2;
    }
    0
}

/// `--replay <file>`: run one stored case; exit 1 + VIOLATION line if it fails.
pub fn replay_file<P: Property>(p: &P, path: &str) -> i32 {
    let txt = match std::fs::read_to_string(path) {
        Ok(t) => t,
        Err(e) => {
            eprintln!("cannot read {path}: {e}");
            return 2;
        }
    };
    let v: serde_json::Value = match serde_json::from_str(&txt) {
        Ok(v) => v,
        Err(e) => {
            eprintln!("bad json in {path}: {e}");
            return 2;
        }
    };
    let case_v = v.get("case").cloned().unwrap_or(v);
    match replay_case(p, &case_v) {
        Err(e) => {
            eprintln!("{e}");
            2
        }
        Ok(Outcome::Fail(f)) => {
            println!("VIOLATION property={} replay={}", p.id(), path);
            println!("  {}: {}", f.kind, f.detail);
            1
        }
        Ok(o) => {
            println!("replay of {path}: {:?}", o);
            0
        }
    }
}


/// Run a bounded libFuzzer campaign (8 processes, own corpus copies, `-seed` derived from the
/// run's seed) on a pre-built target; every crash input is decoded into a case and re-judged
/// by the property's normal `check` (fork-isolated). Only confirmed failures are findings.
fn run_fuzz<P: Property>(p: &P, target: &str, o: &DriveOpts) -> (serde_json::Value, Vec<Finding>, Vec<String>) {
    let mut errs = vec![];
    let bin = o.verif_dir.join("fuzz/target/x86_64-unknown-linux-gnu/release").join(target);
    if !bin.exists() {
        errs.push(format!("fuzz target {} is not built (./check builds it in the thorough tier)", bin.display()));
        return (serde_json::json!({"target": target, "built": false}), vec![], errs);
    }
    let secs: u64 = std::env::var("VERIF_FUZZ_SECS").ok().and_then(|s| s.parse().ok()).unwrap_or(240);
    let jobs = 8usize;
    let work = o.verif_dir.join("harness/target/fuzz-work").join(format!("{}-{}", target, std::process::id()));
    let _ = std::fs::remove_dir_all(&work);
    let mut children = vec![];
    for j in 0..jobs {
        let dir = work.join(format!("job{j}"));
        let corpus = dir.join("corpus");
        let _ = std::fs::create_dir_all(&corpus);
        // seed corpus: pseudo-random byte strings (full length from the start) plus an empty input
        let mut x = fnv(&format!("{}/{}/{}", o.seed, target, j)) | 1;
        for k in 0..24 {
            let mut bytes = vec![];
            for _ in 0..(64 + 16 * k) {
                x ^= x << 13;
                x ^= x >> 7;
                x ^= x << 17;
                bytes.push((x >> 24) as u8);
            }
            let _ = std::fs::write(corpus.join(format!("seed{k}")), bytes);
        }
        let log = std::fs::File::create(dir.join("log.txt")).expect("fuzz log");
        let child = std::process::Command::new(&bin)
            .arg(&corpus)
            .arg(format!("-max_total_time={secs}"))
            .arg(format!("-seed={}", (o.seed.wrapping_mul(31).wrapping_add(j as u64 + 1)) & 0x7fff_ffff))
            .arg("-len_control=0")
            .arg("-max_len=1024")
            .arg("-timeout=20")
            .arg("-rss_limit_mb=4096")
            .arg(format!("-artifact_prefix={}/", dir.display()))
            .stdin(std::process::Stdio::null())
            .stdout(std::process::Stdio::null())
            .stderr(log)
            .spawn();
        match child {
            Ok(c) => children.push((j, dir, c)),
            Err(e) => errs.push(format!("cannot start {}: {e}", bin.display())),
        }
    }
    let mut executions = 0u64;
    let mut crash_files = vec![];
    for (_, dir, mut c) in children {
        let _ = c.wait();
        if let Ok(log) = std::fs::read_to_string(dir.join("log.txt")) {
            for l in log.lines() {
                if let Some(rest) = l.strip_prefix("Done ") {
                    executions += rest.split_whitespace().next().and_then(|n| n.parse::<u64>().ok()).unwrap_or(0);
                } else if l.starts_with("stat::number_of_executed_units:") {
                    // printed on crash instead of the "Done" line
                    executions += l.rsplit(' ').next().and_then(|n| n.parse::<u64>().ok()).unwrap_or(0);
                }
            }
        }
        if let Ok(rd) = std::fs::read_dir(&dir) {
            for e in rd.filter_map(|e| e.ok()) {
                let name = e.file_name().to_string_lossy().to_string();
                if name.starts_with("crash-") || name.starts_with("timeout-") || name.starts_with("oom-") {
                    crash_files.push(e.path());
                }
            }
        }
    }
    let mut found: Vec<Finding> = vec![];
    let mut unconfirmed = 0;
    for f in &crash_files {
        let bytes = std::fs::read(f).unwrap_or_default();
        let Some(case) = p.decode_fuzz(&bytes) else {
            unconfirmed += 1;
            continue;
        };
        let mut scratch = Stats::default();
        match p.check(&case, &mut scratch) {
            Outcome::Fail(fl) => {
                MIN_DEADLINE.with(|d| d.set(Some(Instant::now() + std::time::Duration::from_secs(120))));
                let case = p.minimize(case, &fl);
                MIN_DEADLINE.with(|d| d.set(None));
                let v = serde_json::to_value(&case).unwrap();
                if !found.iter().any(|x| x.case == v) {
                    found.push(Finding { kind: fl.kind, detail: fl.detail, case: v, unshrunk: None });
                }
            }
            _ => unconfirmed += 1,
        }
    }
    let _ = std::fs::remove_dir_all(&work);
    (
        serde_json::json!({"target": target, "built": true, "processes": jobs, "seconds_each": secs, "executions": executions, "crash_inputs": crash_files.len(), "confirmed_by_the_normal_check": found.len(), "not_reproduced_through_the_normal_check": unconfirmed}),
        found,
        errs,
    )
}
