//! C05 - divergence and termination are preserved by every backend.
use crate::bf::Mix;
use crate::child::Obs;
use crate::engine::{Stats, Tier};
use crate::exec::{Backend, Fault, Mode, RunCfg};
use crate::progs::{ProgCase, ProgProperty, Sel};
use crate::refmodel::{Ev, Fate, RefRun};

pub struct C05;

const BUDGETS: [u64; 6] = [0, 1, 7, 100, 20_000, 300_000];

impl ProgProperty for C05 {
    fn id(&self) -> &'static str {
        "C05"
    }
    fn rule(&self) -> String {
        "structured programs with spliced candidate infinite loops (+[], +[.], +[>+<], ,[.], -[+>+<-], input-dependent variants ...) plus raw programs, x input x width; the canonical run is classified Halt or Diverges (a complete machine state seen twice at a loop back-edge). Halt: execute must return with the canonical events on all four back ends (one level each, drawn). Diverges: (1) execute_limited with budgets {0,1,7,100,2e4,3e5} never reports finished and logs a canonical prefix; (2) if the divergent run keeps printing, execute with a sink that refuses the k-th byte delivers exactly the canonical events up to it; (3) on a sample, plain execute must still be running at the end of a window >= 100x the canonical prefix time, having logged exactly the canonical events - a return is a violation, an incomplete log only inconclusive. Non-trivial: Diverges with the divergent loop entered after at least one other loop pass or event, or Halt where a spliced candidate loop is present in the text; distinct = distinct (program, input, width)".into()
    }
    fn assumptions(&self) -> Vec<String> {
        vec!["'never returns' can only be refuted: a return is a definite violation, not-returning is observed for a finite window".into()]
    }
    fn cases(&self, tier: Tier) -> u64 {
        match tier {
            Tier::Quick => 9_000,
            Tier::Thorough => 200_000,
        }
    }
    fn mix(&self, _tier: Tier) -> Mix {
        Mix { raw: 20, strukt: 0, div: 80, wide: 0, big: 0, roam: 0, deep: 0, commented: 0, hibits: 0 }
    }
    fn max_steps(&self) -> u64 {
        400_000
    }
    fn admit(&self, r: &RefRun) -> Result<(), &'static str> {
        match r.fate {
            Fate::Halt | Fate::Diverges => Ok(()),
            Fate::Unknown => Err("canonical run exceeds the step limit"),
        }
    }
    fn make_cfgs(&self, sel: &Sel, _p: &str, _i: &[u8], _b: u32, r: &RefRun) -> Vec<RunCfg> {
        let lvl = |k: u32| (sel.level.min(3) + k) % 4;
        let mut v = vec![];
        match r.fate {
            Fate::Halt => {
                v.push(RunCfg::plain(Backend::Inplace, 0));
                v.push(RunCfg::plain(Backend::Ir, lvl(0)));
                v.push(RunCfg::plain(Backend::Bc, lvl(1)));
                v.push(RunCfg::plain(Backend::Jit, lvl(2)));
                v.push(RunCfg::plain([Backend::Ir, Backend::Bc, Backend::Jit][(sel.a % 3) as usize], lvl(3)));
            }
            _ => {
                // part 1: budgets, every back end, one level each
                for (bi, b) in [Backend::Inplace, Backend::Ir, Backend::Bc, Backend::Jit].into_iter().enumerate() {
                    for (k, &budget) in BUDGETS.iter().enumerate() {
                        if (k + bi + sel.b as usize) % 2 == 0 {
                            let mut c = RunCfg::plain(b, lvl(bi as u32));
                            c.mode = Mode::Limited(budget);
                            v.push(c);
                        }
                    }
                }
                // part 2: refusing sink, if the run prints at all
                let nout = r.events.iter().filter(|e| matches!(e, Ev::Out(_))).count();
                if nout > 0 {
                    let k = (sel.c as usize) % nout;
                    for (bi, b) in [Backend::Inplace, Backend::Ir, Backend::Bc, Backend::Jit].into_iter().enumerate() {
                        let mut c = RunCfg::plain(b, lvl(bi as u32 + 1));
                        c.fault = if sel.d % 2 == 0 { Fault::OutZeroAt(k) } else { Fault::OutErrAt(k) };
                        v.push(c);
                    }
                }
                // part 3: plain execute must not return (sampled: it costs a window per config)
                if sel.a % 10 < 3 {
                    let b = [Backend::Inplace, Backend::Ir, Backend::Bc, Backend::Jit][(sel.d % 4) as usize];
                    v.push(RunCfg::plain(b, lvl(sel.d)));
                    if sel.a % 10 == 0 {
                        let b2 = [Backend::Ir, Backend::Bc, Backend::Jit][(sel.c % 3) as usize];
                        v.push(RunCfg::plain(b2, lvl(sel.c)));
                    }
                }
            }
        }
        v
    }
    fn nontrivial(&self, c: &ProgCase, r: &RefRun, _obs: &[Option<Obs>], stats: &mut Stats) -> bool {
        let has_cand = crate::bf::DIV_CANDIDATES.iter().any(|k| c.program.contains(k));
        match r.fate {
            Fate::Diverges => {
                if r.cycle_events > 0 {
                    stats.class("diverges-printing")
                } else {
                    stats.class("diverges-silently")
                }
                if c.cfgs.iter().any(|x| x.mode == Mode::Exec && x.fault == Fault::None) {
                    stats.class("part3-plain-execute-observed-not-returning");
                }
                // entered after other work: more than the candidate's own few steps
                r.back_edges > 2 && (r.cycle_start_events > 0 || r.steps > 64)
            }
            _ => {
                if has_cand {
                    stats.class("halts-with-candidate-loop-in-text")
                }
                has_cand && !r.events.is_empty()
            }
        }
    }
    fn floors(&self, tier: Tier) -> Vec<(&'static str, u64)> {
        let q = if tier == Tier::Quick { 1 } else { 20 };
        vec![("fate:Diverges", 800 * q), ("diverges-printing", 150 * q), ("diverges-silently", 300 * q), ("part3-plain-execute-observed-not-returning", 150 * q), ("halts-with-candidate-loop-in-text", 1000 * q)]
    }
}
