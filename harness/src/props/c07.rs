//! C07 - budget-limited execution is a faithful finite prefix of the real run.
use crate::bf::Mix;
use crate::child::{End, Obs};
use crate::engine::{Stats, Tier};
use crate::exec::{Backend, Mode, RunCfg};
use crate::judge::UNLIMITED_BUDGET;
use crate::progs::{ProgCase, ProgProperty, Sel};
use crate::refmodel::{Fate, RefRun};

pub struct C07;

impl ProgProperty for C07 {
    fn id(&self) -> &'static str {
        "C07"
    }
    fn rule(&self) -> String {
        "structured / raw / candidate-divergent programs x input x width; execute_limited on all four back ends (one level each, drawn) with three budgets per case: 2^62, one of {0,1,2,7,100} and one uniform below 1e5. Oracle: 'finished' implies the log equals the complete canonical sequence (and the canonical run halts); 'interrupted' implies the log is a prefix of it (for divergent programs the detected cycle is unrolled; for runs beyond the step limit the common prefix is compared); budget 2^62 on a halting program must finish; a divergent program never finishes; the logs of any two runs of one case are prefixes of one another (which needs no reference and therefore also judges programs whose canonical run is too long to finish); a call with budget <= 1000 on a program <= 400 bytes that does not return within 20 s in isolation is a violation. Non-trivial: some run was interrupted strictly inside the canonical event sequence (after the first, before the last event); distinct = distinct (program, input, width)".into()
    }
    fn assumptions(&self) -> Vec<String> {
        vec!["'time bounded by the budget' is checked through a coarse, timing-robust bound only (see rule)".into()]
    }
    fn cases(&self, tier: Tier) -> u64 {
        match tier {
            Tier::Quick => 14_000,
            Tier::Thorough => 300_000,
        }
    }
    fn mix(&self, _tier: Tier) -> Mix {
        Mix { raw: 20, strukt: 45, div: 30, wide: 8, big: 4, roam: 5, deep: 0, commented: 3, hibits: 3 }
    }
    fn max_steps(&self) -> u64 {
        600_000
    }
    fn admit(&self, _r: &RefRun) -> Result<(), &'static str> {
        Ok(())
    }
    fn make_cfgs(&self, sel: &Sel, _p: &str, _i: &[u8], _b: u32, r: &RefRun) -> Vec<RunCfg> {
        let small = [0u64, 1, 2, 7, 100][(sel.a % 5) as usize];
        let uni = (sel.b as u64) % 100_000;
        let mut v = vec![];
        for (bi, b) in [Backend::Inplace, Backend::Ir, Backend::Bc, Backend::Jit].into_iter().enumerate() {
            let level = (sel.level.min(3) + bi as u32) % 4;
            for budget in [UNLIMITED_BUDGET, small, uni] {
                // with an effectively unlimited budget only a halting run must return; a divergent one
                // must not (observed for a window on a sample), an unclassified one is not run at all
                if budget == UNLIMITED_BUDGET && (r.fate == Fate::Unknown || (r.fate == Fate::Diverges && (sel.c as usize + bi) % 8 != 0)) {
                    continue;
                }
                let mut c = RunCfg::plain(b, level);
                c.mode = Mode::Limited(budget);
                v.push(c);
            }
        }
        v
    }
    /// Two logs that are both prefixes of the canonical sequence are prefixes of one another. This holds
    /// without knowing the canonical run, so it also judges programs whose canonical run is too long
    /// to finish here - the ones where closed forms and folded constants matter most.
    fn extra_judge(&self, c: &ProgCase, _r: &RefRun, obs: &[Option<Obs>]) -> Option<crate::engine::Fail> {
        let done: Vec<(usize, &Obs)> = obs.iter().enumerate().filter_map(|(i, o)| o.as_ref().map(|o| (i, o))).filter(|(_, o)| matches!(o.end, End::Returned(_))).collect();
        for (ai, (i, a)) in done.iter().enumerate() {
            for (j, b) in done.iter().skip(ai + 1) {
                let n = a.events.len().min(b.events.len());
                if a.events[..n] != b.events[..n] {
                    let at = a.events.iter().zip(b.events.iter()).position(|(x, y)| x != y).unwrap_or(n);
                    return Some(crate::engine::Fail {
                        kind: "not-prefix-comparable".into(),
                        detail: format!("[{}] and [{}] cannot both have logged a prefix of the canonical sequence: they differ at event {at} ({} vs {})", c.cfgs[*i].describe(c.bits), c.cfgs[*j].describe(c.bits), crate::refmodel::ev_string(&a.events[at.saturating_sub(2)..(at + 3).min(a.events.len())]), crate::refmodel::ev_string(&b.events[at.saturating_sub(2)..(at + 3).min(b.events.len())])),
                        cfg: Some(*i),
                    });
                }
            }
        }
        None
    }
    fn nontrivial(&self, _c: &ProgCase, r: &RefRun, obs: &[Option<Obs>], stats: &mut Stats) -> bool {
        if r.fate == Fate::Unknown {
            stats.class("judged-pairwise-beyond-the-reference(canonical run too long)");
        }
        let mut inside = false;
        for o in obs.iter().flatten() {
            match o.end {
                End::Returned(Some(false)) => {
                    stats.class("interrupted");
                    if !o.events.is_empty() && (o.events.len() < r.events.len() || r.fate != Fate::Halt) {
                        inside = true;
                    }
                }
                End::Returned(Some(true)) => stats.class("finished"),
                _ => {}
            }
        }
        if inside {
            stats.class("interrupted-inside-event-sequence")
        }
        inside
    }
    fn floors(&self, tier: Tier) -> Vec<(&'static str, u64)> {
        let q = if tier == Tier::Quick { 1 } else { 20 };
        vec![("nontrivial", 1200 * q), ("fate:Diverges", 600 * q), ("fate:Halt", 4000 * q)]
    }
}
