//! C15 - the symbolic expression algebra agrees with concrete arithmetic.
use crate::engine::{Fail, Outcome, Property, Stats, Tier};
use crate::with_cell;
use hpbf::{ir::Expr, CellType};
use proptest::prelude::*;
use serde::{Deserialize, Serialize};

/// The harness's own expression tree; evaluated by `eval` below, so that
/// `Expr::evaluate` itself is under test.
#[derive(Serialize, Deserialize, Clone, Debug)]
pub enum T {
    Val(u64),
    Var(i8),
    Add(Box<T>, Box<T>),
    Mul(Box<T>, Box<T>),
    Neg(Box<T>),
    Norm(Box<T>),
}

#[derive(Serialize, Deserialize, Clone, Debug)]
pub struct ExprCase {
    pub bits: u32,
    pub tree: T,
    pub env: [u64; 7],
    pub subst: Vec<T>,
}

fn build<C: CellType>(t: &T) -> Expr<C> {
    match t {
        T::Val(v) => Expr::val(C::from_u64(*v)),
        T::Var(i) => Expr::var(*i as isize),
        T::Add(a, b) => build::<C>(a).add(build::<C>(b)),
        T::Mul(a, b) => build::<C>(a).mul(build::<C>(b)),
        T::Neg(a) => build::<C>(a).neg(),
        T::Norm(a) => build::<C>(a).normalize(),
    }
}
fn eval<C: CellType>(t: &T, env: &[u64; 7]) -> C {
    match t {
        T::Val(v) => C::from_u64(*v),
        T::Var(i) => C::from_u64(env[(*i + 3) as usize]),
        T::Add(a, b) => eval::<C>(a, env).wrapping_add(eval::<C>(b, env)),
        T::Mul(a, b) => eval::<C>(a, env).wrapping_mul(eval::<C>(b, env)),
        T::Neg(a) => eval::<C>(a, env).wrapping_neg(),
        T::Norm(a) => eval::<C>(a, env),
    }
}
fn has_square(t: &T) -> bool {
    fn vars(t: &T, out: &mut Vec<i8>) {
        match t {
            T::Var(i) => out.push(*i),
            T::Add(a, b) | T::Mul(a, b) => {
                vars(a, out);
                vars(b, out)
            }
            T::Neg(a) | T::Norm(a) => vars(a, out),
            T::Val(_) => {}
        }
    }
    match t {
        T::Mul(a, b) => {
            let (mut va, mut vb) = (vec![], vec![]);
            vars(a, &mut va);
            vars(b, &mut vb);
            va.iter().any(|x| vb.contains(x)) || has_square(a) || has_square(b)
        }
        T::Add(a, b) => has_square(a) || has_square(b),
        T::Neg(a) | T::Norm(a) => has_square(a),
        _ => false,
    }
}
fn has_special_coef(t: &T, w: u32) -> bool {
    let half = 1u64 << (w - 1);
    let mask = if w == 64 { u64::MAX } else { (1u64 << w) - 1 };
    match t {
        T::Val(v) => {
            let v = v & mask;
            v == half || v == half.wrapping_add(1) & mask || v == half - 1
        }
        T::Add(a, b) | T::Mul(a, b) => has_special_coef(a, w) || has_special_coef(b, w),
        T::Neg(a) | T::Norm(a) => has_special_coef(a, w),
        T::Var(_) => false,
    }
}

pub fn check_case<C: CellType>(c: &ExprCase) -> Result<(bool, Vec<&'static str>), String> {
    let t = &c.tree;
    let env = &c.env;
    let e = build::<C>(t);
    let f = |i: isize| C::from_u64(env[(i + 3) as usize]);
    let want = eval::<C>(t, env);
    let got = e.evaluate(f);
    if got != want {
        return Err(format!("evaluate = {got:?}, arithmetic on the operands gives {want:?}; expr = {e:?}"));
    }
    let n = e.clone().normalize();
    if n.evaluate(f) != want {
        return Err(format!("normalize changed the value: {e:?} -> {n:?}"));
    }
    if n.clone().normalize().evaluate(f) != want {
        return Err(format!("normalizing twice changed the value: {n:?}"));
    }
    let neg = e.clone().neg();
    if neg.evaluate(f) != want.wrapping_neg() {
        return Err(format!("neg: {e:?} -> {neg:?}"));
    }
    if let Some(h) = e.half() {
        if h.evaluate(f).wrapping_add(h.evaluate(f)) != want {
            return Err(format!("half: 2 * {h:?} != {e:?}"));
        }
    }
    if let Some(cst) = e.constant() {
        if cst != want {
            return Err(format!("constant() = {cst:?} for {e:?} (value {want:?})"));
        }
        if e.variables().next().is_some() {
            return Err(format!("constant() is Some but the expression mentions variables: {e:?}"));
        }
    }
    if e.constant_part() != e.evaluate(|_| C::ZERO) {
        return Err(format!("constant_part() = {:?} but the value at the all-zero assignment is {:?}: {e:?}", e.constant_part(), e.evaluate(|_| C::ZERO)));
    }
    if e.is_zero() && want != C::ZERO {
        return Err(format!("is_zero() for {e:?} with value {want:?}"));
    }
    let mut classes = vec![];
    for v in -3isize..4 {
        if let Some(r) = e.inc_of(v) {
            if f(v).wrapping_add(r.evaluate(f)) != want {
                return Err(format!("inc_of({v}): {e:?} -> x + {r:?} does not recompose"));
            }
            classes.push("inc_of");
        }
        if let Some((r, m)) = e.prod_inc_of(v) {
            if m.wrapping_mul(f(v)).wrapping_add(r.evaluate(f)) != want {
                return Err(format!("prod_inc_of({v}): {e:?} -> {m:?}*x + {r:?} does not recompose"));
            }
            classes.push("prod_inc_of");
        }
        if let Some(r) = e.prod_of(v) {
            if f(v).wrapping_mul(r.evaluate(f)) != want {
                return Err(format!("prod_of({v}): {e:?} -> x * {r:?} does not recompose"));
            }
            classes.push("prod_of");
        }
        if let Some(k) = e.const_inc_of(v) {
            if f(v).wrapping_add(k) != want {
                return Err(format!("const_inc_of({v}): {e:?} -> x + {k:?} does not recompose"));
            }
            classes.push("const_inc_of");
        }
    }
    if let Some(v) = e.identity() {
        if f(v) != want {
            return Err(format!("identity() = {v} for {e:?}"));
        }
        classes.push("identity");
    }
    // every variable the expression reports really is one of ours
    for v in e.variables() {
        if !(-3..4).contains(&v) {
            return Err(format!("variables() yields {v}"));
        }
    }
    // substitution
    let subs: Vec<Expr<C>> = c.subst.iter().map(|s| build::<C>(s)).collect();
    let mut substituted = false;
    if subs.len() == 7 {
        if let Some(se) = e.symb_evaluate(|i| Some(subs[(i + 3) as usize].clone())) {
            let want2 = e.evaluate(|i| subs[(i + 3) as usize].evaluate(f));
            if se.evaluate(f) != want2 {
                return Err(format!("symb_evaluate: {e:?} with {subs:?} -> {se:?} evaluates to {:?}, composition gives {want2:?}", se.evaluate(f)));
            }
            substituted = true;
        }
        // partial substitution: None leaves... is refused as a whole
        if e.symb_evaluate(|_| None).is_some() && e.variables().next().is_some() {
            return Err(format!("symb_evaluate with an undefined variable returned Some for {e:?}"));
        }
    }
    // lowering through the public CodeGen interface computes the same value, for any operand ordering
    struct EvalGen<'a, C: CellType>(&'a dyn Fn(isize) -> C);
    impl<C: CellType> hpbf::ir::CodeGen<C> for EvalGen<'_, C> {
        type Output = C;
        type Error = ();
        fn imm(&mut self, imm: C) -> Result<C, ()> {
            Ok(imm)
        }
        fn mem(&mut self, var: isize) -> Result<C, ()> {
            Ok((self.0)(var))
        }
        fn add(&mut self, a: C, b: C) -> Result<C, ()> {
            Ok(a.wrapping_add(b))
        }
        fn sub(&mut self, a: C, b: C) -> Result<C, ()> {
            Ok(a.wrapping_add(b.wrapping_neg()))
        }
        fn mul(&mut self, a: C, b: C) -> Result<C, ()> {
            Ok(a.wrapping_mul(b))
        }
    }
    for ord in 0..3usize {
        let lowered = e.codegen(&mut EvalGen::<C>(&f), |v| match ord {
            0 => (v + 3) as usize,
            1 => (3 - v) as usize,
            _ => ((v + 3) as usize * 5) % 7,
        });
        if lowered != Ok(want) {
            return Err(format!("codegen lowering (ordering {ord}) computes {lowered:?}, value is {want:?}: {e:?}"));
        }
    }
    let sq = has_square(t);
    let sp = has_special_coef(t, C::BITS);
    if sq {
        classes.push("product-with-repeated-variable")
    }
    if sp {
        classes.push("coefficient-at-half-range")
    }
    let into_product = substituted && matches!(t, T::Mul(..));
    if into_product {
        classes.push("substitution-into-product")
    }
    classes.sort();
    classes.dedup();
    Ok((sq || sp || into_product, classes))
}

pub struct C15;

fn tree() -> impl Strategy<Value = T> {
    let leaf = prop_oneof![
        3 => prop_oneof![Just(0u64), Just(1), Just(2), Just(3), Just(u64::MAX), Just(u64::MAX - 1), Just(1u64 << 7), Just(1u64 << 15), Just(1u64 << 31), Just(1u64 << 63), Just(127), Just(129), Just(0x7fff), Just(0x8001), Just(0x7fff_ffff), Just(0x8000_0001), Just((1u64 << 63) + 1), Just((1u64 << 63) - 1), any::<u64>()].prop_map(T::Val),
        4 => (-3i8..4).prop_map(T::Var),
    ];
    leaf.prop_recursive(5, 24, 2, |inner| {
        prop_oneof![
            4 => (inner.clone(), inner.clone()).prop_map(|(a, b)| T::Add(Box::new(a), Box::new(b))),
            4 => (inner.clone(), inner.clone()).prop_map(|(a, b)| T::Mul(Box::new(a), Box::new(b))),
            1 => inner.clone().prop_map(|a| T::Neg(Box::new(a))),
            1 => inner.clone().prop_map(|a| T::Norm(Box::new(a))),
        ]
    })
}

impl Property for C15 {
    type Gen = ExprCase;
    type Case = ExprCase;
    fn id(&self) -> &'static str {
        "C15"
    }
    fn rule(&self) -> String {
        "expression trees T = Val | Var(-3..3) | Add | Mul | Neg | Normalize (depth <= 5, <= 24 leaves, coefficients biased to 0, +-1, 2^(w-1), 2^(w-1)+-1) built through the public ir::Expr API, 7-cell assignments (values biased to 0,1,2,3,128,255 and uniform), substitution maps of 7 further trees, width 8/16/32/64. Oracle: the harness's own evaluator on T (so Expr::evaluate itself is under test): equal values for the built expression, normalize (also idempotent), neg, half (2h = e), constant, constant_part (= value at the all-zero assignment), identity, is_zero; for every variable v: inc_of, prod_inc_of, prod_of, const_inc_of recompose to the original value; symb_evaluate(sigma) equals evaluation under the composed assignment; lowering through the public ir::CodeGen interface (three operand orderings) computes the same value. Only values are compared, never the structure of expressions. Non-trivial: a product with a repeated variable, or a coefficient in {2^(w-1), 2^(w-1)+-1}, or substitution into a product; distinct = distinct (tree, assignment, substitution, width)".into()
    }
    fn assumptions(&self) -> Vec<String> {
        vec!["split_along needs crate-private map types and is only exercised indirectly (through C01)".into(), "safe API: runs in the shard process under catch_unwind".into()]
    }
    fn cases(&self, tier: Tier) -> u64 {
        match tier {
            Tier::Quick => 120_000,
            Tier::Thorough => 5_000_000,
        }
    }
    fn strategy(&self, _tier: Tier) -> BoxedStrategy<ExprCase> {
        let env = proptest::array::uniform7(prop_oneof![Just(0u64), Just(1), Just(2), Just(3), Just(255), Just(128), any::<u64>()]);
        (crate::bf::width(), tree(), env, proptest::collection::vec(tree(), 7)).prop_map(|(bits, tree, env, subst)| ExprCase { bits, tree, env, subst }).boxed()
    }
    fn concretize(&self, g: &ExprCase) -> ExprCase {
        g.clone()
    }
    fn check(&self, c: &ExprCase, stats: &mut Stats) -> Outcome {
        let bits = c.bits;
        match crate::exec::guarded(|| with_cell!(bits, C, check_case::<C>(c))) {
            Ok(Ok((nt, classes))) => {
                for k in classes {
                    stats.class(k)
                }
                stats.class(&format!("width:{bits}"));
                Outcome::Pass { nontrivial: nt }
            }
            Ok(Err(msg)) => Outcome::Fail(Fail { kind: "algebra".into(), detail: format!("i{bits}: {msg}"), cfg: None }),
            Err(p) => Outcome::Fail(Fail { kind: "panic".into(), detail: format!("i{bits}: {p}"), cfg: None }),
        }
    }
    fn fuzz_target(&self) -> Option<&'static str> {
        Some("expr")
    }
    fn decode_fuzz(&self, bytes: &[u8]) -> Option<ExprCase> {
        crate::fuzzdec::expr_case(&mut arbitrary::Unstructured::new(bytes)).ok()
    }
    fn floors(&self, tier: Tier) -> Vec<(&'static str, u64)> {
        let q = if tier == Tier::Quick { 1 } else { 40 };
        vec![("nontrivial", 30_000 * q), ("product-with-repeated-variable", 10_000 * q), ("coefficient-at-half-range", 10_000 * q), ("prod_inc_of", 5_000 * q), ("inc_of", 3_000 * q)]
    }
}
