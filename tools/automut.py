#!/usr/bin/env python3
"""Automated mutation campaign (sensitivity measurement, DESIGN section 9.3).

  tools/automut.py <worker-id> <n-mutants> [seed]

Each worker owns a scratch worktree of /repo and two persistent target directories (incremental
builds). For every randomly drawn mutant (one small syntactic change in one source line):
  1. `cargo test --offline --lib` in the worktree; a mutant the repository's own 186 unit tests
     kill is discarded (we only care about changes the existing tests cannot see);
  2. the harness is built against the mutated worktree (cargo --config paths=[...]) and the quick
     tier of the checks mapped to the mutated file is run until one reports a violation;
  3. one JSON line per surviving mutant is appended to /tmp/automut/results-<worker>.jsonl.
Neither /repo nor /verif is modified.
"""
import json, os, random, re, subprocess, sys, time

WORKER = sys.argv[1]; N = int(sys.argv[2]); SEED = int(sys.argv[3]) if len(sys.argv) > 3 else 1
ROOT = f'/tmp/automut/w{WORKER}'
WT = f'{ROOT}/repo'; TT = f'{ROOT}/target-tests'; TH = f'{ROOT}/target-harness'; OUT = f'{ROOT}/vout'
RES = f'/tmp/automut/results-{WORKER}.jsonl'
FILES = {
    'src/opt.rs': ['C01', 'C05'],
    'src/ir.rs': ['C15', 'C01', 'C12'],
    'src/bc.rs': ['C11', 'C02', 'C03'],
    'src/exec/bcint/ops.rs': ['C02', 'C06', 'C10', 'C07'],
    'src/exec/bcint/mod.rs': ['C02', 'C07', 'C10'],
    'src/exec/basejit/codegen.rs': ['C03', 'C07', 'C08', 'C10', 'C06'],
    'src/exec/basejit/asm.rs': ['C03'],
    'src/exec/basejit/mod.rs': ['C03', 'C08'],
    'src/runtime.rs': ['C09', 'C06', 'C08'],
    'src/lib.rs': ['C14'],
    'src/smallvec.rs': ['C18', 'C15'],
    'src/exec/irint.rs': ['C01', 'C07', 'C08'],
    'src/exec/inplace.rs': ['C04', 'C07', 'C08', 'C12'],
}
WEIGHTS = {'src/opt.rs': 6, 'src/bc.rs': 5, 'src/exec/basejit/codegen.rs': 5, 'src/ir.rs': 4, 'src/exec/bcint/ops.rs': 3}
OPS = [
    (r' \+ 1\b', ' - 1'), (r' - 1\b', ' + 1'), (r' \+ ', ' - '), (r' - ', ' + '),
    (r' < ', ' <= '), (r' <= ', ' < '), (r' > ', ' >= '), (r' >= ', ' > '), (r' == ', ' != '), (r' != ', ' == '),
    (r' && ', ' || '), (r' \|\| ', ' && '), (r'\btrue\b', 'false'), (r'\bfalse\b', 'true'),
    (r'\.min\(', '.max('), (r'\.max\(', '.min('), (r'\b0\b', '1'), (r'\b1\b', '2'), (r'\b2\b', '1'),
    (r'wrapping_add', 'wrapping_sub'), (r'wrapping_mul', 'wrapping_add'), (r'!self\.', 'self.'), (r'if !', 'if '),
    ('DELETE', ''),
]

def sh(cmd, **kw):
    return subprocess.run(cmd, shell=True, capture_output=True, text=True, **kw)

def setup():
    os.makedirs(ROOT, exist_ok=True)
    sh('git -C /repo worktree prune')
    if not os.path.exists(WT):
        r = sh(f'git -C /repo worktree add --detach {WT} HEAD')
        assert r.returncode == 0, r.stderr
    os.makedirs(OUT, exist_ok=True)
    if not os.path.exists(f'{OUT}/corpus'):
        os.symlink('/verif/corpus', f'{OUT}/corpus')
    sh(f'cp /verif/known_findings.txt {OUT}/')

def candidate_lines(path):
    lines = open(f'{WT}/{path}').read().split('\n')
    out = []
    in_tests = False
    for i, l in enumerate(lines):
        s = l.strip()
        if s.startswith('#[cfg(test)]') or s.startswith('executor_tests!') or s.startswith('mod tests'):
            in_tests = True
        if in_tests or s.startswith('//') or s.startswith('#[') or 'unimplemented!' in s or 'write!' in s or 'println!' in s or 'assert' in s or s.startswith('use ') or 'fn fmt' in s:
            continue
        if '///' in l:
            continue
        out.append(i)
    return lines, out

def main():
    setup()
    rng = random.Random(SEED * 1000 + int(WORKER))
    env = dict(os.environ, CARGO_NET_OFFLINE='true')
    done = 0
    attempts = 0
    paths = list(FILES)
    only = os.environ.get('AUTOMUT_FILES')
    if only:
        paths = [p for p in paths if p in only.split(',')]
    weights = [WEIGHTS.get(p, 2) for p in paths]
    while done < N and attempts < N * 40:
        attempts += 1
        sh(f'git -C {WT} checkout -- .')
        path = rng.choices(paths, weights)[0]
        lines, cands = candidate_lines(path)
        i = rng.choice(cands)
        line = lines[i]
        ops = [(p, r) for p, r in OPS if (p == 'DELETE' and line.strip().endswith(';') and ('self.' in line or '.push(' in line or 'insert' in line) and 'let ' not in line and 'return' not in line) or (p != 'DELETE' and re.search(p, line))]
        if not ops:
            continue
        p, r = rng.choice(ops)
        if p == 'DELETE':
            new = re.sub(r'\S.*$', '', line) + '// ' + line.strip()
        else:
            ms = list(re.finditer(p, line))
            m = rng.choice(ms)
            new = line[:m.start()] + r + line[m.end():]
        if new == line:
            continue
        lines[i] = new
        open(f'{WT}/{path}', 'w').write('\n'.join(lines))
        desc = f'{path}:{i+1}: `{line.strip()}` -> `{new.strip()}`'
        # 1. must compile and survive the repository's unit tests
        t = sh(f'cd {WT} && CARGO_TARGET_DIR={TT} timeout 900 cargo test --offline --lib 2>&1 | tail -5', env=env)
        if 'test result: ok. 186 passed' not in t.stdout:
            continue
        # 2. harness against the mutant
        b = sh(f'cd /verif/harness && cargo build --quiet --release --config \'paths=["{WT}"]\' --target-dir {TH} 2>&1 | tail -3 && cargo build --quiet --profile dbgassert --config \'paths=["{WT}"]\' --target-dir {TH} 2>&1 | tail -3', env=env)
        if not os.path.exists(f'{TH}/release/hv'):
            continue
        rec = {'mutant': desc, 'file': path, 'checks': [], 'caught_by': None}
        for cid in FILES[path]:
            t0 = time.time()
            c = sh(f'VERIF_DIR={OUT} timeout 1500 {TH}/release/hv check {cid} --tier quick --seed 0 2>&1 | grep -E "^VIOLATION|^  |CHECK-ERROR" | head -3', env=env)
            viol = 'VIOLATION' in c.stdout
            rec['checks'].append({'id': cid, 'violation': viol, 'secs': int(time.time() - t0), 'first': c.stdout.strip().split('\n')[1][:200] if viol and len(c.stdout.strip().split('\n')) > 1 else c.stdout.strip()[:200]})
            sh(f'rm -rf {OUT}/findings {OUT}/evidence')
            if viol:
                rec['caught_by'] = cid
                break
        with open(RES, 'a') as f:
            f.write(json.dumps(rec) + '\n')
        done += 1
    sh(f'git -C /repo worktree remove --force {WT}')

if __name__ == '__main__':
    main()
