//! C10 - static (unchecked) mode equals checked mode inside the pre-allocated region.
use crate::bf::Mix;
use crate::child::Obs;
use crate::engine::{Stats, Tier};
use crate::exec::{Alloc, Backend, Mode, RunCfg, PROBE_BC};
use crate::progs::{ProgCase, ProgProperty, Sel};
use crate::refmodel::RefRun;

pub struct C10;

impl ProgProperty for C10 {
    fn id(&self) -> &'static str {
        "C10"
    }
    fn rule(&self) -> String {
        "structured / raw / roaming programs with a halting canonical run, x input x width; the tape is pre-allocated with make_accessible(min_ptr - L, max_ptr + L + 1) where [min_ptr, max_ptr] is the canonical pointer excursion and L the program length (the margin the property names), then execute_unsafe runs on the bytecode interpreter and the JIT at 2 drawn levels each, twice: with the region flush against a PROT_NONE page on the right and on the left (guard-page allocator). Oracle: events equal the reference, no SIGSEGV/SIGBUS. Non-trivial: the canonical run moves at least 8 cells from the origin and the bytecode contains a pointer move or scan (hook); distinct = distinct (program, input, width) A third of the halting programs at 16/32 bit and two thirds at 64 bit carry the upper-bits probe (family `...+probe`): an appended epilogue takes the canonical final value of every small-magnitude cell out again, counts the cells in which anything is left and prints the count (0 canonically), which makes the bits above the low byte observable.".into()
    }
    fn assumptions(&self) -> Vec<String> {
        vec!["only the region's flush side is byte-exact, the other side has up to a page of slack; both placements are run for every case".into()]
    }
    fn cases(&self, tier: Tier) -> u64 {
        match tier {
            Tier::Quick => 40_000,
            Tier::Thorough => 1_000_000,
        }
    }
    fn mix(&self, _tier: Tier) -> Mix {
        Mix { raw: 30, strukt: 35, div: 0, wide: 5, big: 0, roam: 30, deep: 0, commented: 0, hibits: 0 }
    }
    fn max_steps(&self) -> u64 {
        1_000_000
    }
    fn make_cfgs(&self, sel: &Sel, p: &str, _i: &[u8], _b: u32, r: &RefRun) -> Vec<RunCfg> {
        let l = p.len() as i64;
        let (lo, hi) = (r.min_ptr - l, r.max_ptr + l + 1);
        let l1 = sel.level.min(3);
        let l2 = (l1 + 1 + sel.b % 3) % 4;
        let mut v = vec![];
        for mode in [1u8, 2] {
            for b in [Backend::Bc, Backend::Jit] {
                for lv in [l1, l2] {
                    v.push(RunCfg { backend: b, level: lv, mode: Mode::Unsafe(lo, hi), fault: crate::exec::Fault::None, alloc: Alloc { mode, fail_zeroed_at: None, fail_any_at: None }, probes: if mode == 1 { PROBE_BC } else { 0 }, pre_tape: false, huge: None });
                }
            }
        }
        v
    }
    fn nontrivial(&self, _c: &ProgCase, r: &RefRun, obs: &[Option<Obs>], stats: &mut Stats) -> bool {
        let mut moves = false;
        let mut grew = false;
        for o in obs.iter().flatten() {
            if let Some(f) = o.note("forms") {
                if f.contains("mov ") || f.contains("scan ") {
                    moves = true
                }
            }
            // during execute_unsafe: the bytecode interpreter allocates its context (1 zeroed allocation), the JIT none
            if let Some(z) = o.note("zallocs").and_then(|v| v.parse::<u64>().ok()) {
                if z > 1 {
                    grew = true
                }
            }
        }
        if grew {
            stats.class("tape-grew-during-static-run")
        }
        if moves {
            stats.class("bytecode-moves-or-scans")
        }
        let far = r.max_ptr.max(-r.min_ptr) >= 8;
        if far {
            stats.class("excursion>=8")
        }
        far && moves
    }
    fn probe_upper_bits(&self) -> bool {
        true
    }
    fn floors(&self, tier: Tier) -> Vec<(&'static str, u64)> {
        let q = if tier == Tier::Quick { 1 } else { 20 };
        vec![("nontrivial", 4000 * q), ("bytecode-moves-or-scans", 8000 * q)]
    }
}
