#![no_main]
// C03: baseline JIT at every level vs. the canonical reference (oracle inside the target).
// The generated machine code runs inside the fuzzer process in its bounds-checked, budgeted
// form; a fault that escapes those checks ends the process, and libFuzzer keeps the input.
use arbitrary::Unstructured;
use hpbf_verif::{exec::Backend, fuzzdec, inproc};
use libfuzzer_sys::fuzz_target;

fuzz_target!(|data: &[u8]| {
    let mut u = Unstructured::new(data);
    let Ok(p) = fuzzdec::prog_jit(&mut u) else { return };
    if let Some(v) = inproc::check_program_steps(Backend::Jit, &p.program, &p.input, p.bits, 50_000) {
        panic!("VIOLATION C03 {v} CASE {}", serde_json::to_string(&p).unwrap());
    }
});
