//! C18 - the inline small vector behaves like Vec and drops each element exactly once.
use crate::engine::{Fail, Outcome, Property, Stats, Tier};
use crate::verdict::{self, Info};
use hpbf::verif::SmallVec;
use proptest::collection::vec;
use proptest::prelude::*;
use serde::{Deserialize, Serialize};
use std::cell::RefCell;
use std::collections::HashMap;
use std::hash::{Hash, Hasher};

#[derive(Serialize, Deserialize, Clone, Debug, PartialEq)]
pub enum Start {
    New,
    WithCapacity(u8),
    FromVec(Vec<i8>),
    With(i8),
    WithAll(Vec<i8>),
    Default,
}

#[derive(Serialize, Deserialize, Clone, Debug, PartialEq)]
pub enum Op {
    Push(i8),
    Extend(Vec<i8>),
    Clear,
    Retain(i8),
    RetainMut(i8),
    Dedup,
    Sort,
    SortByRev,
    /// clone, compare with ==, cmp, hash; drop the clone
    CloneCmp,
    /// replace the vector by its clone (a short heap vector becomes inline)
    ReplaceByClone,
    IterRef,
    IterMutAdd(i8),
    /// consume a clone by value, taking only the first k items
    IntoIter(u8),
    Index(u8),
    IndexSet(u8, i8),
    /// compare (==, cmp) with a freshly built vector
    CmpWith(Vec<i8>),
    DebugLen,
}

#[derive(Serialize, Deserialize, Clone, Debug)]
pub struct SvCase {
    /// inline capacity: 1 or 2 (those the crate uses)
    pub n: u8,
    /// element type with a destructor (drop-tracked) or plain i32
    pub tracked: bool,
    pub start: Start,
    pub ops: Vec<Op>,
}

thread_local! {
    static LIVE: RefCell<HashMap<u64, i32>> = RefCell::new(HashMap::new());
    static NEXT: RefCell<u64> = RefCell::new(0);
    static BAD: RefCell<Option<String>> = RefCell::new(None);
}

pub trait Elem: Clone + Ord + Hash + std::fmt::Debug {
    fn mk(v: i32) -> Self;
    fn v(&self) -> i32;
    fn set(&mut self, v: i32);
    const TRACKED: bool;
}
impl Elem for i32 {
    fn mk(v: i32) -> i32 {
        v
    }
    fn v(&self) -> i32 {
        *self
    }
    fn set(&mut self, v: i32) {
        *self = v
    }
    const TRACKED: bool = false;
}

/// Drop-tracking element: every construction registers an id, every drop removes it.
#[derive(Debug)]
pub struct D {
    id: u64,
    v: i32,
}
impl Clone for D {
    fn clone(&self) -> D {
        D::mk(self.v)
    }
}
impl PartialEq for D {
    fn eq(&self, o: &D) -> bool {
        self.v == o.v
    }
}
impl Eq for D {}
impl PartialOrd for D {
    fn partial_cmp(&self, o: &D) -> Option<std::cmp::Ordering> {
        Some(self.cmp(o))
    }
}
impl Ord for D {
    fn cmp(&self, o: &D) -> std::cmp::Ordering {
        self.v.cmp(&o.v)
    }
}
impl Hash for D {
    fn hash<H: Hasher>(&self, h: &mut H) {
        self.v.hash(h)
    }
}
impl Drop for D {
    fn drop(&mut self) {
        LIVE.with(|l| {
            if l.borrow_mut().remove(&self.id).is_none() {
                BAD.with(|b| {
                    let mut b = b.borrow_mut();
                    if b.is_none() {
                        *b = Some(format!("element id {} (value {}) dropped twice or never constructed", self.id, self.v))
                    }
                })
            }
        })
    }
}
impl Elem for D {
    fn mk(v: i32) -> D {
        let id = NEXT.with(|n| {
            let mut n = n.borrow_mut();
            *n += 1;
            *n
        });
        LIVE.with(|l| l.borrow_mut().insert(id, v));
        D { id, v }
    }
    fn v(&self) -> i32 {
        self.v
    }
    fn set(&mut self, v: i32) {
        self.v = v
    }
    const TRACKED: bool = true;
}

fn live() -> usize {
    LIVE.with(|l| l.borrow().len())
}
fn bad() -> Option<String> {
    BAD.with(|b| b.borrow().clone())
}
fn hash_of<T: Hash>(t: &T) -> u64 {
    let mut h = std::collections::hash_map::DefaultHasher::new();
    t.hash(&mut h);
    h.finish()
}

fn make_all<E: Elem, const N: usize>(vs: &[i8]) -> SmallVec<E, N> {
    let e = |i: usize| E::mk(vs[i] as i32);
    match vs.len() {
        0 => SmallVec::with_all::<0>([]),
        1 => SmallVec::with_all([e(0)]),
        2 => SmallVec::with_all([e(0), e(1)]),
        3 => SmallVec::with_all([e(0), e(1), e(2)]),
        _ => SmallVec::with_all([e(0), e(1), e(2), e(3)]),
    }
}

/// Run the history against SmallVec<E, N> and the Vec<E> model.
pub fn run_history<E: Elem, const N: usize>(c: &SvCase) -> Result<Info, (String, String)> {
    LIVE.with(|l| l.borrow_mut().clear());
    BAD.with(|b| *b.borrow_mut() = None);
    let fail = |kind: &str, msg: String| Err((kind.to_string(), msg));
    let (mut inline_removals, mut crossings_up, mut crossings_down, mut abandoned) = (0u32, 0u32, 0u32, 0u32);
    {
        let (mut s, mut m): (SmallVec<E, N>, Vec<E>) = match &c.start {
            Start::New => (SmallVec::new(), vec![]),
            Start::Default => (SmallVec::default(), vec![]),
            Start::WithCapacity(k) => (SmallVec::with_capacity(*k as usize), vec![]),
            Start::FromVec(vs) => (SmallVec::from_vec(vs.iter().map(|&v| E::mk(v as i32)).collect()), vs.iter().map(|&v| E::mk(v as i32)).collect()),
            Start::With(v) => (SmallVec::with(E::mk(*v as i32)), vec![E::mk(*v as i32)]),
            Start::WithAll(vs) => {
                let vs = &vs[..vs.len().min(4)];
                (make_all::<E, N>(vs), vs.iter().map(|&v| E::mk(v as i32)).collect())
            }
        };
        // is the real vector inline? (from_vec / with_capacity > N are heap from the start)
        let mut heap = match &c.start {
            Start::FromVec(_) => true,
            Start::WithCapacity(k) => *k as usize > N,
            Start::WithAll(vs) => vs.len().min(4) > N,
            _ => false,
        };
        for (step, op) in c.ops.iter().enumerate() {
            let before = m.len();
            match op {
                Op::Push(v) => {
                    s.push(E::mk(*v as i32));
                    m.push(E::mk(*v as i32));
                }
                Op::Extend(vs) => {
                    s.extend(vs.iter().map(|&v| E::mk(v as i32)));
                    m.extend(vs.iter().map(|&v| E::mk(v as i32)));
                }
                Op::Clear => {
                    s.clear();
                    m.clear();
                }
                Op::Retain(t) => {
                    let t = *t as i32;
                    s.retain(|d| d.v() != t);
                    m.retain(|d| d.v() != t);
                }
                Op::RetainMut(t) => {
                    let t = *t as i32;
                    s.retain_mut(|d| {
                        let nv = (d.v() + 1) % 4;
                        d.set(nv);
                        nv != t
                    });
                    m.retain_mut(|d| {
                        let nv = (d.v() + 1) % 4;
                        d.set(nv);
                        nv != t
                    });
                }
                Op::Dedup => {
                    s.dedup();
                    m.dedup();
                }
                Op::Sort => {
                    s.sort();
                    m.sort();
                }
                Op::SortByRev => {
                    s.sort_by(|a, b| b.cmp(a));
                    m.sort_by(|a, b| b.cmp(a));
                }
                Op::CloneCmp => {
                    let cl = s.clone();
                    if cl.as_slice() != m.as_slice() {
                        return fail("mismatch", format!("step {step} {op:?}: clone differs from model"));
                    }
                    if !(cl == s) || cl.cmp(&s) != std::cmp::Ordering::Equal || cl.partial_cmp(&s) != Some(std::cmp::Ordering::Equal) {
                        return fail("mismatch", format!("step {step} {op:?}: clone does not compare equal"));
                    }
                    if hash_of(&cl) != hash_of(&m.as_slice()) {
                        return fail("mismatch", format!("step {step} {op:?}: hash differs from the slice hash"));
                    }
                }
                Op::ReplaceByClone => {
                    let cl = s.clone();
                    s = cl;
                    let was_heap = heap;
                    heap = m.len() > N;
                    if was_heap && !heap {
                        crossings_down += 1;
                    }
                }
                Op::IterRef => {
                    let a: Vec<i32> = (&s).into_iter().map(|d| d.v()).collect();
                    let b: Vec<i32> = m.iter().map(|d| d.v()).collect();
                    if a != b {
                        return fail("mismatch", format!("step {step} {op:?}: by-reference iteration {a:?} != {b:?}"));
                    }
                }
                Op::IterMutAdd(k) => {
                    for d in &mut s {
                        let nv = (d.v() + *k as i32).rem_euclid(4);
                        d.set(nv)
                    }
                    for d in m.iter_mut() {
                        let nv = (d.v() + *k as i32).rem_euclid(4);
                        d.set(nv)
                    }
                }
                Op::IntoIter(k) => {
                    let take = (*k as usize).min(before);
                    let cl = s.clone();
                    let mut it = cl.into_iter();
                    let mut got = vec![];
                    for _ in 0..take {
                        match it.next() {
                            Some(x) => got.push(x.v()),
                            None => break,
                        }
                    }
                    let exhausted_early = take == before && it.next().is_some();
                    drop(it);
                    let want: Vec<i32> = m.iter().take(take).map(|d| d.v()).collect();
                    if got != want || exhausted_early {
                        return fail("mismatch", format!("step {step} {op:?}: by-value iteration gave {got:?}, model {want:?}"));
                    }
                    if take < before {
                        abandoned += 1
                    }
                }
                Op::Index(i) => {
                    if before > 0 {
                        let i = *i as usize % before;
                        if s[i].v() != m[i].v() || s.get(i).map(|d| d.v()) != m.get(i).map(|d| d.v()) {
                            return fail("mismatch", format!("step {step} {op:?}: index {i}"));
                        }
                    }
                    if s.len() != m.len() || s.is_empty() != m.is_empty() || s.first().map(|d| d.v()) != m.first().map(|d| d.v()) || s.last().map(|d| d.v()) != m.last().map(|d| d.v()) {
                        return fail("mismatch", format!("step {step} {op:?}: len/first/last"));
                    }
                }
                Op::IndexSet(i, v) => {
                    if before > 0 {
                        let i = *i as usize % before;
                        s[i] = E::mk(*v as i32);
                        m[i] = E::mk(*v as i32);
                    }
                }
                Op::CmpWith(vs) => {
                    let o: SmallVec<E, N> = SmallVec::from_vec(vs.iter().map(|&v| E::mk(v as i32)).collect());
                    let mo: Vec<E> = vs.iter().map(|&v| E::mk(v as i32)).collect();
                    if (s == o) != (m == mo) || s.cmp(&o) != m.cmp(&mo) {
                        return fail("mismatch", format!("step {step} {op:?}: comparison differs from Vec"));
                    }
                }
                Op::DebugLen => {
                    let _ = format!("{:?}", s.as_slice());
                    let mut sm: SmallVec<E, N> = SmallVec::new();
                    std::mem::swap(&mut sm, &mut s);
                    std::mem::swap(&mut sm, &mut s);
                    drop(sm);
                }
            }
            if matches!(op, Op::Push(_) | Op::Extend(_)) && !heap && m.len() > N {
                heap = true;
                crossings_up += 1;
            }
            if !heap && m.len() < before && matches!(op, Op::Retain(_) | Op::RetainMut(_) | Op::Dedup) {
                inline_removals += 1;
            }
            let a: Vec<i32> = s.as_slice().iter().map(|d| d.v()).collect();
            let b: Vec<i32> = m.iter().map(|d| d.v()).collect();
            if a != b {
                return fail("mismatch", format!("step {step} {op:?}: contents {a:?}, Vec model {b:?}"));
            }
            if E::TRACKED {
                if let Some(b) = bad() {
                    return fail("double-drop", format!("step {step} {op:?}: {b}"));
                }
                if live() != 2 * m.len() {
                    let kind = if live() > 2 * m.len() { "leak" } else { "early-drop" };
                    return fail(kind, format!("step {step} {op:?}: {} elements alive, expected 2 x {} (vector + model)", live(), m.len()));
                }
            }
        }
    }
    if E::TRACKED {
        if let Some(b) = bad() {
            return fail("double-drop", format!("at the end: {b}"));
        }
        if live() != 0 {
            return fail("leak", format!("{} elements never dropped after the vector and the model were dropped", live()));
        }
    }
    let crossed = crossings_up > 0 || crossings_down > 0;
    let mut info = Info::new(crossed && (inline_removals > 0 || abandoned > 0));
    if crossings_up > 0 {
        info.classes.push("crossed-inline-to-heap".into())
    }
    if crossings_down > 0 {
        info.classes.push("crossed-heap-to-inline".into())
    }
    if inline_removals > 0 {
        info.classes.push("removed-elements-while-inline".into())
    }
    if abandoned > 0 {
        info.classes.push("abandoned-by-value-iterator".into())
    }
    info.classes.push(format!("N={N},{}", if E::TRACKED { "drop-tracked" } else { "i32" }));
    Ok(info)
}

pub struct C18;

fn val() -> impl Strategy<Value = i8> {
    0i8..4
}

fn op_strategy() -> impl Strategy<Value = Op> {
    prop_oneof![
        6 => val().prop_map(Op::Push),
        2 => vec(val(), 0..5).prop_map(Op::Extend),
        1 => Just(Op::Clear),
        3 => val().prop_map(Op::Retain),
        3 => val().prop_map(Op::RetainMut),
        3 => Just(Op::Dedup),
        1 => Just(Op::Sort),
        1 => Just(Op::SortByRev),
        2 => Just(Op::CloneCmp),
        2 => Just(Op::ReplaceByClone),
        1 => Just(Op::IterRef),
        1 => (0i8..4).prop_map(Op::IterMutAdd),
        3 => (0u8..6).prop_map(Op::IntoIter),
        1 => any::<u8>().prop_map(Op::Index),
        1 => (any::<u8>(), val()).prop_map(|(i, v)| Op::IndexSet(i, v)),
        1 => vec(val(), 0..4).prop_map(Op::CmpWith),
        1 => Just(Op::DebugLen),
    ]
}

impl Property for C18 {
    type Gen = SvCase;
    type Case = SvCase;
    fn id(&self) -> &'static str {
        "C18"
    }
    fn rule(&self) -> String {
        "histories of 1..30 operations (push, extend, clear, retain, retain_mut with mutation, dedup, sort/sort_by through DerefMut, clone + ==/cmp/hash, replace-by-clone, by-reference and by-mutable-reference iteration, by-value iteration abandoned after k items, index/get/first/last, index assignment, comparison with another vector) x inline capacity N in {1,2} x element type {i32, drop-tracked} x start {new, default, with_capacity, from_vec, with, with_all}. Oracle: a Vec model subjected to the same history (equal contents after every operation) and a drop tracker (id -> alive): alive count == 2 x length after every step, 0 at the end, a second drop of an id is recorded at once. Each history runs in a forked child. Non-trivial: the history crosses the inline/heap boundary (up by push/extend, or down by replacing a short heap vector with its clone) and removes an element while inline or abandons a by-value iterator midway; distinct = distinct history".into()
    }
    fn assumptions(&self) -> Vec<String> {
        vec!["SmallVec is reached through the feature-gated re-export hpbf::verif::SmallVec (hook)".into(), "panics inside predicates (documented to leak) are not generated".into()]
    }
    fn cases(&self, tier: Tier) -> u64 {
        match tier {
            Tier::Quick => 100_000,
            Tier::Thorough => 3_000_000,
        }
    }
    fn strategy(&self, _tier: Tier) -> BoxedStrategy<SvCase> {
        let start = prop_oneof![
            4 => Just(Start::New),
            1 => Just(Start::Default),
            2 => (0u8..6).prop_map(Start::WithCapacity),
            2 => vec(val(), 0..5).prop_map(Start::FromVec),
            1 => val().prop_map(Start::With),
            2 => vec(val(), 0..5).prop_map(Start::WithAll),
        ];
        (1u8..3, any::<bool>(), start, vec(op_strategy(), 1..30)).prop_map(|(n, tracked, start, ops)| SvCase { n, tracked, start, ops }).boxed()
    }
    fn concretize(&self, g: &SvCase) -> SvCase {
        g.clone()
    }
    fn check(&self, c: &SvCase, stats: &mut Stats) -> Outcome {
        if !(1..=2).contains(&c.n) {
            return Outcome::Skip("inline capacity not in {1,2}");
        }
        let c2 = c.clone();
        verdict::in_child(std::time::Duration::from_secs(5), stats, move || match (c2.n, c2.tracked) {
            (1, false) => run_history::<i32, 1>(&c2),
            (1, true) => run_history::<D, 1>(&c2),
            (2, false) => run_history::<i32, 2>(&c2),
            _ => run_history::<D, 2>(&c2),
        })
    }
    fn minimize(&self, c: SvCase, fail: &Fail) -> SvCase {
        // drop operations one at a time while the failure kind stays
        let mut c = c;
        let mut scratch = Stats::default();
        let mut i = 0;
        while i < c.ops.len() {
            let mut cand = c.clone();
            cand.ops.remove(i);
            if matches!(self.check(&cand, &mut scratch), Outcome::Fail(f) if f.kind == fail.kind) {
                c = cand
            } else {
                i += 1
            }
        }
        c
    }
    fn fuzz_target(&self) -> Option<&'static str> {
        Some("smallvec")
    }
    fn decode_fuzz(&self, bytes: &[u8]) -> Option<SvCase> {
        crate::fuzzdec::sv_case(&mut arbitrary::Unstructured::new(bytes)).ok()
    }
    fn floors(&self, tier: Tier) -> Vec<(&'static str, u64)> {
        let q = if tier == Tier::Quick { 1 } else { 25 };
        vec![("nontrivial", 20_000 * q), ("crossed-heap-to-inline", 5_000 * q), ("abandoned-by-value-iterator", 10_000 * q), ("removed-elements-while-inline", 10_000 * q)]
    }
}
