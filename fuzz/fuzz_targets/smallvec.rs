#![no_main]
// C18: SmallVec histories vs. a Vec model with a drop tracker (ASan for memory errors).
use arbitrary::Unstructured;
use hpbf_verif::{fuzzdec, props::c18};
use libfuzzer_sys::fuzz_target;

fuzz_target!(|data: &[u8]| {
    let mut u = Unstructured::new(data);
    let Ok(c) = fuzzdec::sv_case(&mut u) else { return };
    let r = match (c.n, c.tracked) {
        (1, false) => c18::run_history::<i32, 1>(&c),
        (1, true) => c18::run_history::<c18::D, 1>(&c),
        (2, false) => c18::run_history::<i32, 2>(&c),
        _ => c18::run_history::<c18::D, 2>(&c),
    };
    if let Err((kind, msg)) = r {
        panic!("VIOLATION C18 {kind}: {msg} CASE {}", serde_json::to_string(&c).unwrap());
    }
});
