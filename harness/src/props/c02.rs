//! C02 - the bytecode interpreter behaves like the source program, in both build profiles.
use crate::bf::Mix;
use crate::child::Obs;
use crate::engine::{Stats, Tier};
use crate::exec::{Backend, RunCfg, PROBE_BC};
use crate::progs::{ProgCase, ProgProperty, Sel};
use crate::refmodel::RefRun;

pub struct C02;

pub fn record_bc_notes(obs: &[Option<Obs>], stats: &mut Stats, set: &str) -> (u64, u64, bool, bool) {
    let (mut temps, mut lac, mut scan, mut memz) = (0u64, 0u64, false, false);
    for o in obs.iter().flatten() {
        if let Some(t) = o.note("temps").and_then(|v| v.parse::<u64>().ok()) {
            temps = temps.max(t);
        }
        if let Some(t) = o.note("live_across_call").and_then(|v| v.parse::<u64>().ok()) {
            lac = lac.max(t);
        }
        if let Some(f) = o.note("forms") {
            for form in f.split('|').filter(|x| !x.is_empty()) {
                stats.set(set, form);
                if form.starts_with("scan") {
                    scan = true
                }
                if form.contains("memz") {
                    memz = true
                }
            }
        }
    }
    stats.max("max-temps", temps);
    (temps, lac, scan, memz)
}

impl ProgProperty for C02 {
    fn id(&self) -> &'static str {
        "C02"
    }
    fn rule(&self) -> String {
        "generated programs (structured 45%, roaming 20%, raw 15%, wide 12%, deep 5%, bigconst 3%) x input x width, run by BcInterpreter::execute at levels 0..3, every case in the release build (tail-called dispatch) and in the debug-assertions build (trampolined dispatch), compared event-for-event with the reference. Non-trivial: the canonical run repeats a loop body and produces an event, or the bytecode the interpreter holds (hook) contains a Scan, a MemZero operand or a spilled temporary (index >= 2); distinct = distinct (program, input, width) A third of the halting programs at 16/32 bit and two thirds at 64 bit carry the upper-bits probe (family `...+probe`): an appended epilogue takes the canonical final value of every small-magnitude cell out again, counts the cells in which anything is left and prints the count (0 canonically), which makes the bits above the low byte observable.".into()
    }
    fn assumptions(&self) -> Vec<String> {
        vec!["build profiles: harness profile `release` (cargo defaults) and `dbgassert` (release + debug-assertions + overflow-checks)".into()]
    }
    fn cases(&self, tier: Tier) -> u64 {
        match tier {
            Tier::Quick => 30_000,
            Tier::Thorough => 800_000,
        }
    }
    fn mix(&self, _tier: Tier) -> Mix {
        Mix { raw: 15, strukt: 45, div: 0, wide: 12, big: 3, roam: 20, deep: 5, commented: 4, hibits: 5 }
    }
    fn make_cfgs(&self, _sel: &Sel, _p: &str, _i: &[u8], _b: u32, _r: &RefRun) -> Vec<RunCfg> {
        (0u32..4)
            .map(|l| {
                let mut c = RunCfg::plain(Backend::Bc, l);
                c.probes = PROBE_BC;
                c
            })
            .collect()
    }
    fn nontrivial(&self, _c: &ProgCase, r: &RefRun, obs: &[Option<Obs>], stats: &mut Stats) -> bool {
        let (temps, _, scan, memz) = record_bc_notes(obs, stats, "bc-forms");
        if scan {
            stats.class("bytecode-has-scan")
        }
        if memz {
            stats.class("bytecode-has-memzero-operand")
        }
        if temps > 2 {
            stats.class("bytecode-has-spilled-temp")
        }
        if r.steps >= 200_000 {
            stats.class("long-run(>=200k canonical steps)")
        }
        (r.back_edges > 0 && !r.events.is_empty()) || scan || memz || temps > 2
    }
    fn probe_upper_bits(&self) -> bool {
        true
    }
    fn fuzz_target(&self) -> Option<&'static str> {
        Some("prog_bc")
    }
    fn floors(&self, tier: Tier) -> Vec<(&'static str, u64)> {
        let q = if tier == Tier::Quick { 1 } else { 25 };
        vec![("nontrivial", 6000 * q), ("bytecode-has-scan", 1500 * q), ("bytecode-has-spilled-temp", 1000 * q), ("long-run(>=200k canonical steps)", 100 * q)]
    }
}
