//! Child-side: run the real hpbf code under one configuration and log what it
//! does into the shared record stream.

use crate::child;
use crate::galloc;
use hpbf::{
    bc,
    exec::{BaseJitCompiler, BcInterpreter, Executable, Executor, InplaceInterpreter, IrInterpreter},
    runtime::Context,
    CellType,
};
use serde::{Deserialize, Serialize};
use std::io::{self, Read, Write};

#[derive(Clone, Copy, PartialEq, Eq, Debug, Hash, Serialize, Deserialize, PartialOrd, Ord)]
pub enum Backend {
    Inplace,
    Ir,
    Bc,
    Jit,
}

impl Backend {
    pub const ALL: [Backend; 4] = [Backend::Inplace, Backend::Ir, Backend::Bc, Backend::Jit];
    pub fn name(self) -> &'static str {
        match self {
            Backend::Inplace => "inplace",
            Backend::Ir => "ir",
            Backend::Bc => "bc",
            Backend::Jit => "jit",
        }
    }
}

#[derive(Clone, Copy, PartialEq, Eq, Debug, Hash, Serialize, Deserialize)]
pub enum Mode {
    Exec,
    Limited(u64),
    /// execute_unsafe after make_accessible(lo, hi)
    Unsafe(i64, i64),
}

#[derive(Clone, Copy, PartialEq, Eq, Debug, Hash, Serialize, Deserialize)]
pub enum Fault {
    None,
    /// the k-th (0-based) output write and all later ones return Ok(0)
    OutZeroAt(usize),
    /// ... return Err
    OutErrAt(usize),
    /// the k-th (0-based) input request and all later ones return Err
    InErrAt(usize),
    /// the context has no input source
    InAbsent,
    /// the context has no output sink (documented: output is discarded, not a failure)
    OutAbsent,
}

#[derive(Clone, Copy, PartialEq, Eq, Debug, Hash, Serialize, Deserialize)]
pub struct Alloc {
    /// 0 off, 1 flush right, 2 flush left, 3 alternating
    pub mode: u8,
    pub fail_zeroed_at: Option<u32>,
    pub fail_any_at: Option<u32>,
}

impl Alloc {
    pub const OFF: Alloc = Alloc { mode: 0, fail_zeroed_at: None, fail_any_at: None };
}

#[derive(Clone, Copy, PartialEq, Eq, Debug, Hash, Serialize, Deserialize)]
pub struct RunCfg {
    pub backend: Backend,
    pub level: u32,
    pub mode: Mode,
    pub fault: Fault,
    pub alloc: Alloc,
    /// extra observations to log (bit set of PROBE_*)
    #[serde(default)]
    pub probes: u8,
    /// the context already owns a small tape (under the guard allocator, if armed) when the call starts,
    /// as when a context is reused for a second program
    #[serde(default)]
    pub pre_tape: bool,
    /// after the program has returned, ask the context's tape for a range no allocator can provide (C17)
    #[serde(default)]
    pub huge: Option<Huge>,
}

/// A growth request of about 2^exp cells (+ jitter) on the tape the program leaves behind.
#[derive(Clone, Copy, PartialEq, Eq, Debug, Hash, Serialize, Deserialize)]
pub struct Huge {
    /// 0 make_accessible above, 1 below, 2 both sides at once, 3 write far above, 4 write far below, 5 move far + write
    pub kind: u8,
    pub exp: u8,
    pub jitter: i8,
}

/// log statistics of the bytecode the executor holds (bc / jit only)
pub const PROBE_BC: u8 = 1;
/// log whether optimisation changes the IR at all (`ir_changed`) and whether
/// `optimize(level) == optimize(3)` for levels above 3 (`lvl_eq3`)
pub const PROBE_IR: u8 = 2;

impl RunCfg {
    pub fn plain(backend: Backend, level: u32) -> RunCfg {
        RunCfg { backend, level, mode: Mode::Exec, fault: Fault::None, alloc: Alloc::OFF, probes: 0, pre_tape: false, huge: None }
    }
    pub fn describe(&self, bits: u32) -> String {
        format!("{} -O{} i{} {:?} fault={:?} alloc={}", self.backend.name(), self.level, bits, self.mode, self.fault, self.alloc.mode)
    }
}

/// The error kind of an injected I/O failure varies with the position of the failing operation:
/// the property speaks of any error, not of one kind.
fn fault_kind(position: usize) -> io::ErrorKind {
    use io::ErrorKind::*;
    [Interrupted, Other, BrokenPipe, WouldBlock, PermissionDenied, UnexpectedEof, TimedOut, WriteZero][position % 8]
}

struct LogIn {
    data: Vec<u8>,
    pos: usize,
    n: usize,
    fail_at: Option<usize>,
}
impl Read for LogIn {
    fn read(&mut self, buf: &mut [u8]) -> io::Result<usize> {
        child::log_in();
        let k = self.n;
        self.n += 1;
        if let Some(f) = self.fail_at {
            if k >= f {
                return Err(io::Error::new(fault_kind(f), "injected input failure"));
            }
        }
        if self.pos < self.data.len() {
            buf[0] = self.data[self.pos];
            self.pos += 1;
            Ok(1)
        } else {
            Ok(0)
        }
    }
}
struct LogOut {
    n: usize,
    fail_at: Option<(usize, bool)>,
}
impl Write for LogOut {
    fn write(&mut self, buf: &[u8]) -> io::Result<usize> {
        child::log_out(buf[0]);
        let k = self.n;
        self.n += 1;
        if let Some((f, err)) = self.fail_at {
            if k >= f {
                return if err { Err(io::Error::new(fault_kind(f), "injected output failure")) } else { Ok(0) };
            }
        }
        Ok(1)
    }
    fn flush(&mut self) -> io::Result<()> {
        Ok(())
    }
}

fn run_executable<C: CellType, E: Executable<C>>(e: &E, input: &[u8], cfg: &RunCfg) -> Option<bool> {
    let inp: Option<Box<dyn Read>> = match cfg.fault {
        Fault::InAbsent => None,
        Fault::InErrAt(k) => Some(Box::new(LogIn { data: input.to_vec(), pos: 0, n: 0, fail_at: Some(k) })),
        _ => Some(Box::new(LogIn { data: input.to_vec(), pos: 0, n: 0, fail_at: None })),
    };
    let out: Option<Box<dyn Write>> = match cfg.fault {
        Fault::OutAbsent => None,
        Fault::OutZeroAt(k) => Some(Box::new(LogOut { n: 0, fail_at: Some((k, false)) })),
        Fault::OutErrAt(k) => Some(Box::new(LogOut { n: 0, fail_at: Some((k, true)) })),
        _ => Some(Box::new(LogOut { n: 0, fail_at: None })),
    };
    let mut cx = Context::<C>::new(inp, out);
    if cfg.pre_tape && !matches!(cfg.mode, Mode::Unsafe(..)) {
        if cfg.alloc.mode != 0 {
            galloc::arm(cfg.alloc.mode as usize);
        }
        // all-zero cells around the origin: invisible to the program
        cx.memory.make_accessible(-2, 3);
    }
    if let Mode::Unsafe(lo, hi) = cfg.mode {
        // the region is set up before arming fault injection, but inside the guard allocator
        if cfg.alloc.mode != 0 {
            galloc::arm(cfg.alloc.mode as usize);
        }
        cx.memory.make_accessible(lo as isize, hi as isize);
    }
    if cfg.alloc.mode != 0 {
        let z0 = galloc::ZCOUNT.load(std::sync::atomic::Ordering::SeqCst);
        if !matches!(cfg.mode, Mode::Unsafe(..)) && !cfg.pre_tape {
            galloc::arm(cfg.alloc.mode as usize);
        }
        if let Some(k) = cfg.alloc.fail_zeroed_at {
            galloc::FAIL_ZEROED_AT.store(z0 + k as usize, std::sync::atomic::Ordering::SeqCst);
        }
        if let Some(k) = cfg.alloc.fail_any_at {
            galloc::FAIL_ANY_AT.store(galloc::COUNT.load(std::sync::atomic::Ordering::SeqCst) + k as usize, std::sync::atomic::Ordering::SeqCst);
        }
    }
    let z_before = galloc::ZCOUNT.load(std::sync::atomic::Ordering::SeqCst);
    let fin = match cfg.mode {
        Mode::Exec => {
            e.execute(&mut cx).unwrap_or_else(|e| panic!("execute returned Err({:?}) at position {} for a balanced program", e.kind, e.position));
            None
        }
        Mode::Limited(b) => {
            cx.budget = b as usize;
            Some(e.execute_limited(&mut cx).unwrap_or_else(|e| panic!("execute_limited returned Err({:?}) at position {} for a balanced program", e.kind, e.position)))
        }
        Mode::Unsafe(..) => {
            unsafe { e.execute_unsafe(&mut cx).unwrap_or_else(|e| panic!("execute_unsafe returned Err({:?}) at position {}", e.kind, e.position)) };
            None
        }
    };
    if let Some(h) = cfg.huge {
        huge_request::<C>(&mut cx, h);
    }
    if cfg.alloc.mode != 0 {
        use std::sync::atomic::Ordering::SeqCst;
        let z = galloc::ZCOUNT.load(SeqCst);
        let refused = galloc::REFUSED.load(SeqCst);
        galloc::disarm();
        let sizes: Vec<String> = (0..z.min(galloc::ZSIZES.len())).map(|i| galloc::ZSIZES[i].load(SeqCst).to_string()).collect();
        child::log_note(&format!("zallocs={}", z - z_before));
        child::log_note(&format!("zallocs_total={}", z));
        child::log_note(&format!("zsizes={}", sizes.join(",")));
        child::log_note(&format!("allocs={}", galloc::COUNT.load(SeqCst)));
        let _ = refused;
    }
    drop(cx);
    fin
}

/// C17: a growth request that cannot be satisfied (2^40 .. 2^63 cells). The call may end the process
/// (abort / panic); if it returns, every cell the tape now reports accessible must lie inside a block
/// the allocator handed out and has not taken back.
fn huge_request<C: CellType>(cx: &mut Context<C>, h: Huge) {
    let n: isize = (1isize << h.exp.clamp(40, 62)) + h.jitter as isize;
    let (lo, hi): (isize, isize) = match h.kind % 6 {
        0 => (-1, n),
        1 => (-n, 2),
        2 => (-n, n),
        3 => (n, n + 1),
        4 => (-n, -n + 1),
        _ => (-3, 4),
    };
    // three marked cells at the pointer: whatever happens to the request, they keep their values
    let mark = |o: isize| C::from_u8(0x51 + o as u8);
    for o in 0..3isize {
        cx.memory.write(o, mark(o));
    }
    let far = if h.jitter < 0 { -n } else { n };
    child::log_note(&format!("huge-begin={lo},{hi}"));
    let res = std::panic::catch_unwind(std::panic::AssertUnwindSafe(|| match h.kind % 6 {
        0 | 1 | 2 => cx.memory.make_accessible(lo, hi),
        3 | 4 => cx.memory.write(lo, C::ONE),
        _ => {
            cx.memory.mov(far);
            cx.memory.write(0, C::ONE);
        }
    }));
    let size = std::mem::size_of::<C>();
    if let Err(p) = res {
        // The request panicked and the caller caught it. A tape that is still usable must still be the
        // same tape: the marked cells read back, never-written far cells read 0, and nothing is reported
        // accessible that the allocator does not back.
        child::log_note("huge-panicked=1");
        if h.kind % 6 == 5 {
            cx.memory.mov(-far);
        }
        for o in 0..3isize {
            if cx.memory.read(o) != mark(o) {
                child::log_note(&format!("huge-after-panic-lost={o}"));
            }
        }
        for o in [lo, hi - 1, if h.kind % 6 == 5 { far } else { lo / 2 + hi / 2 }] {
            if (0..3).contains(&o) {
                continue;
            }
            if cx.memory.check(o) {
                let addr = (cx.memory.current_ptr() as usize).wrapping_add((o as usize).wrapping_mul(size));
                if !galloc::owns(addr, size) {
                    child::log_note(&format!("huge-unowned={o}"));
                    continue;
                }
            }
            if o.unsigned_abs() > 1 << 30 && cx.memory.read(o) != C::ZERO {
                child::log_note(&format!("huge-after-panic-far-read={o}"));
            }
        }
        std::panic::resume_unwind(p);
    }
    // it came back: the allocator must really have provided the cells
    let mut probes = vec![lo, lo + 1, lo / 2 + hi / 2, hi - 2, hi - 1, 0];
    probes.retain(|&o| o >= lo && o < hi);
    let (mut acc, mut unowned) = (0, 0);
    for o in probes {
        if !cx.memory.check(o) {
            continue;
        }
        acc += 1;
        let addr = (cx.memory.current_ptr() as usize).wrapping_add((o as usize).wrapping_mul(size));
        if !galloc::owns(addr, size) {
            unowned += 1;
            child::log_note(&format!("huge-unowned={o}"));
        } else if !(0..3).contains(&o) {
            cx.memory.write(o, C::ONE);
        }
    }
    for o in 0..3isize {
        if h.kind % 6 != 5 && cx.memory.read(o) != mark(o) && !(h.kind % 6 == 3 && false) {
            child::log_note(&format!("huge-after-return-lost={o}"));
        }
    }
    if matches!(h.kind % 6, 3 | 4) && cx.memory.read(lo) != C::ONE {
        // the far write came back, so the far cell must now hold what was written
        child::log_note(&format!("huge-after-return-lost={lo}"));
    }
    child::log_note(&format!("huge-returned={acc},{unowned}"));
}

fn loc_kind<C: CellType>(l: &bc::Loc<C>, regs: usize) -> &'static str {
    match *l {
        bc::Loc::Mem(_) => "mem",
        bc::Loc::MemZero(_) => "memz",
        bc::Loc::Tmp(t) if t < regs => "reg",
        bc::Loc::Tmp(_) => "stk",
        bc::Loc::Imm(v) => {
            let s = v.into_i64();
            if s >= 0 && s <= i32::MAX as i64 {
                "i32"
            } else if s >= i32::MIN as i64 && s < 0 {
                // sign-extended by most encodings, but not by a 32-bit register move
                "n32"
            } else {
                "i64"
            }
        }
    }
}

/// Histogram keys of the instruction-selector arms reached by a bytecode program.
pub fn bc_forms<C: CellType>(p: &bc::Program<C>, regs: usize) -> Vec<String> {
    use bc::Instr as I;
    let mut v = vec![];
    for ins in &p.insts {
        let key = match ins {
            I::Add(d, a, c) | I::Sub(d, a, c) | I::Mul(d, a, c) => {
                let op = match ins {
                    I::Add(..) => "add",
                    I::Sub(..) => "sub",
                    _ => "mul",
                };
                let same = if d == a { "=" } else if d == c { "~" } else { "" };
                format!("{op} {}{same} {} {}", loc_kind(d, regs), loc_kind(a, regs), loc_kind(c, regs))
            }
            I::Copy(d, a) => format!("copy {} {}", loc_kind(d, regs), loc_kind(a, regs)),
            I::Scan(_, s) => format!("scan {}", if *s == 0 { "0" } else if *s > 0 { "+" } else { "-" }),
            I::Mov(s) => format!("mov {}", if *s > 0 { "+" } else { "-" }),
            I::Inp(_) => "inp".into(),
            I::Out(_) => "out".into(),
            I::BrZ(_, o) => format!("brz {}", if *o > 0 { "fwd" } else { "back" }),
            I::BrNZ(_, o) => format!("brnz {}", if *o > 0 { "fwd" } else { "back" }),
            I::Noop => "noop".into(),
        };
        v.push(key);
    }
    v
}

fn note_bc_stats<C: CellType>(p: &bc::Program<C>, regs: usize) {
    use bc::Instr as I;
    let mut forms = bc_forms(p, regs);
    forms.sort();
    forms.dedup();
    // caller-saved register temps live across a runtime-calling instruction
    let mut live_across_call = 0;
    for (i, ins) in p.insts.iter().enumerate() {
        if let I::Inp(_) | I::Out(_) | I::Mov(_) | I::Scan(..) = ins {
            if p.live.get(i).copied().unwrap_or(0) != 0 {
                live_across_call += 1;
            }
        }
    }
    child::log_note(&format!("temps={}", p.temps));
    child::log_note(&format!("insts={}", p.insts.len()));
    child::log_note(&format!("live_across_call={}", live_across_call));
    child::log_note(&format!("window={},{}", p.min_accessed, p.max_accessed));
    child::log_note(&format!("forms={}", forms.join("|")));
}

fn run_c<C: CellType>(code: &str, input: &[u8], cfg: &RunCfg) -> Option<bool> {
    if cfg.probes & PROBE_IR != 0 {
        let p0 = hpbf::ir::Program::<C>::parse(code).expect("parse failed");
        let pl = hpbf::ir::Program::<C>::parse(code).expect("parse failed").optimize(cfg.level);
        child::log_note(&format!("ir_changed={}", (p0 != pl) as u8));
        if cfg.level > 3 {
            let p3 = hpbf::ir::Program::<C>::parse(code).expect("parse failed").optimize(3);
            child::log_note(&format!("lvl_eq3={}", (p3 == pl) as u8));
        }
    }
    match cfg.backend {
        Backend::Inplace => run_executable::<C, _>(&InplaceInterpreter::<C>::create(code, cfg.level).expect("create failed"), input, cfg),
        Backend::Ir => run_executable::<C, _>(&IrInterpreter::<C>::create(code, cfg.level).expect("create failed"), input, cfg),
        Backend::Bc => {
            let e = BcInterpreter::<C>::create(code, cfg.level).expect("create failed");
            if cfg.probes & PROBE_BC != 0 {
                note_bc_stats(e.bytecode(), 2);
            }
            run_executable::<C, _>(&e, input, cfg)
        }
        Backend::Jit => {
            let e = BaseJitCompiler::<C>::create(code, cfg.level).expect("create failed");
            if cfg.probes & PROBE_BC != 0 {
                note_bc_stats(e.bytecode(), 11);
            }
            run_executable::<C, _>(&e, input, cfg)
        }
    }
}

#[macro_export]
macro_rules! with_cell {
    ($bits:expr, $C:ident, $body:expr) => {
        match $bits {
            8 => {
                type $C = u8;
                $body
            }
            16 => {
                type $C = u16;
                $body
            }
            32 => {
                type $C = u32;
                $body
            }
            64 => {
                type $C = u64;
                $body
            }
            b => panic!("unsupported width {b}"),
        }
    };
}

thread_local! {
    static LAST_PANIC: std::cell::RefCell<String> = std::cell::RefCell::new(String::new());
}

pub fn install_quiet_panic_hook() {
    std::panic::set_hook(Box::new(|info| {
        let msg = format!("{info}");
        LAST_PANIC.with(|l| *l.borrow_mut() = msg);
    }));
}

pub fn take_panic_message() -> String {
    LAST_PANIC.with(|l| std::mem::take(&mut *l.borrow_mut()))
}

/// Run `f` under catch_unwind, returning the panic message on panic.
pub fn guarded<R>(f: impl FnOnce() -> R) -> Result<R, String> {
    match std::panic::catch_unwind(std::panic::AssertUnwindSafe(f)) {
        Ok(r) => Ok(r),
        Err(e) => {
            galloc::disarm();
            let mut msg = take_panic_message();
            if msg.is_empty() {
                msg = e.downcast_ref::<String>().cloned().or_else(|| e.downcast_ref::<&str>().map(|s| s.to_string())).unwrap_or_else(|| "panic".into());
            }
            Err(msg)
        }
    }
}

/// Child-side: run all configurations in order, logging each.
pub fn run_all(code: &str, input: &[u8], bits: u32, cfgs: &[RunCfg], event_cap: usize, per_cfg_ms: u64) {
    if cfgs.iter().any(|c| c.alloc.fail_any_at.is_some() || c.alloc.fail_zeroed_at.is_some()) {
        // the expected end is the allocation-failure abort, which prints to stderr
        unsafe {
            let fd = libc::open(b"/dev/null\0".as_ptr() as *const libc::c_char, libc::O_WRONLY);
            if fd >= 0 {
                libc::dup2(fd, 2);
            }
        }
    }
    for (i, cfg) in cfgs.iter().enumerate() {
        child::arm_watchdog(per_cfg_ms);
        child::EVENT_CAP.store(event_cap, std::sync::atomic::Ordering::SeqCst);
        child::log_begin(i);
        match guarded(|| with_cell!(bits, C, run_c::<C>(code, input, cfg))) {
            Ok(fin) => child::log_end(fin),
            Err(msg) => child::log_panic(&msg),
        }
    }
}
