//! One module per property.
pub mod c01;
pub mod c02;
pub mod c03;
pub mod c04;
pub mod c05;
pub mod c06;
pub mod c07;
pub mod c08;
pub mod c09;
pub mod c10;
pub mod c11;
pub mod c12;
pub mod c13;
pub mod c14;
pub mod c15;
pub mod c17;
pub mod c18;
