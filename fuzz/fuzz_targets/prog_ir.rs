#![no_main]
// C01: IR interpreter at every level vs. the canonical reference (oracle inside the target).
use arbitrary::Unstructured;
use hpbf_verif::{exec::Backend, fuzzdec, inproc};
use libfuzzer_sys::fuzz_target;

fuzz_target!(|data: &[u8]| {
    let mut u = Unstructured::new(data);
    let Ok(p) = fuzzdec::prog(&mut u) else { return };
    if let Some(v) = inproc::check_program(Backend::Ir, &p.program, &p.input, p.bits) {
        panic!("VIOLATION C01 {v} CASE {}", serde_json::to_string(&p).unwrap());
    }
});
