#![no_main]
// C09: Memory<C> call histories vs. a HashMap model (ASan instead of the guard allocator).
use arbitrary::Unstructured;
use hpbf_verif::{fuzzdec, props::c09, with_cell};
use libfuzzer_sys::fuzz_target;

fuzz_target!(|data: &[u8]| {
    let mut u = Unstructured::new(data);
    let Ok(c) = fuzzdec::mem_case(&mut u) else { return };
    if let Err((kind, msg)) = with_cell!(c.bits, C, c09::run_history::<C>(&c)) {
        panic!("VIOLATION C09 {kind}: {msg} CASE {}", serde_json::to_string(&c).unwrap());
    }
});
