//! C17 - tape growth failure aborts cleanly instead of corrupting memory.
use crate::bf::Mix;
use crate::child::{self, End, Exit, Obs};
use crate::engine::{Fail, Outcome, Stats, Tier};
use crate::exec::{Alloc, Backend, RunCfg};
use crate::judge;
use crate::progs::{record_common, ProgCase, ProgProperty, Sel};
use crate::refmodel::RefRun;

pub struct C17;

impl C17 {
    /// The unsatisfiable request: 2^40..2^62 cells asked of the tape the program leaves behind.
    fn check_huge(&self, c: &ProgCase, r: &RefRun, cfg: RunCfg, h: crate::exec::Huge, stats: &mut Stats) -> Outcome {
        let run = judge::run_child(&c.program, &c.input, c.bits, &[cfg], r, judge::window(r.steps, 1));
        let o = match run.obs.iter().find(|o| o.cfg == 0) {
            Some(o) => o,
            None => return Outcome::Inconclusive("child logged nothing".into()),
        };
        let desc = format!("[{} then a request of kind {} for about 2^{}{:+} cells]", cfg.describe(c.bits), h.kind % 6, h.exp.clamp(40, 62), h.jitter);
        let begun = o.note("huge-begin").map(|s| s.to_string());
        if begun.is_none() || o.events != r.events {
            return match (&o.end, &run.exit) {
                (End::Cut, Exit::Timeout) => Outcome::Inconclusive(format!("{desc} timeout before the request")),
                _ => Outcome::Skip("program run under the guard allocator did not pass (left to C06)"),
            };
        }
        stats.class("unsatisfiable-request");
        stats.class(&format!("unsatisfiable-request:kind{}", h.kind % 6));
        if let Some(u) = o.note("huge-unowned") {
            return Outcome::Fail(Fail { kind: "stale-tape".into(), detail: format!("{desc} (offsets {}) came back, and the tape reports offset {u} accessible although that cell is outside every block the allocator has handed out", begun.unwrap()), cfg: None });
        }
        for key in ["huge-after-panic-lost", "huge-after-panic-far-read", "huge-after-return-lost"] {
            if let Some(u) = o.note(key) {
                return Outcome::Fail(Fail { kind: "stale-tape".into(), detail: format!("{desc} (offsets {}): {key}={u} - after the request {} the tape no longer holds what was written to it (three marked cells at the pointer must read back, a never-written cell 2^30 or more away must read 0)", begun.unwrap(), if key.contains("panic") { "panicked and the panic was caught" } else { "returned" }), cfg: None });
            }
        }
        if o.note("huge-panicked").is_some() {
            stats.class("unsatisfiable-request:tape-consistent-after-caught-panic");
        }
        match (&o.end, &run.exit) {
            (End::Returned(_), _) => stats.class("unsatisfiable-request:returned-with-owned-cells"),
            (End::Panicked(_), _) => stats.class("unsatisfiable-request:ended-by-panic"),
            (End::Cut, Exit::Signal(s)) if *s == libc::SIGABRT => stats.class("unsatisfiable-request:ended-by-abort"),
            (End::Cut, Exit::Signal(s)) => {
                return Outcome::Fail(Fail { kind: format!("crash:{}", child::signal_name(*s)), detail: format!("{desc} (offsets {}) killed by {}", begun.unwrap(), child::signal_name(*s)), cfg: None });
            }
            (End::Cut, Exit::Timeout) => return Outcome::Inconclusive(format!("{desc} timeout in the request")),
            (End::Cut, e) => return Outcome::Fail(Fail { kind: "exit".into(), detail: format!("{desc} process ended {:?}", e), cfg: None }),
        }
        record_common(c, r, stats);
        Outcome::Pass { nontrivial: false }
    }
}

impl ProgProperty for C17 {
    fn id(&self) -> &'static str {
        "C17"
    }
    fn level(&self) -> &'static str {
        "fault_enumeration"
    }
    fn rule(&self) -> String {
        "roaming / structured programs (halting canonical run) x input x width x back end x level x {fresh context, context that already owns a small tape}; the run is first executed under the guard-page allocator without failure to count its allocations, then again with one request refused (returns null): the k-th zero-initialised allocation (tape and interpreter-context requests; k drawn over all of them, or every k in the thorough tier for programs with <= 12 such requests) or, for a quarter of the cases, the k-th allocation of any kind. Oracle on how the child process ends: SIGABRT (allocation-failure abort) or a Rust panic = pass; SIGSEGV/SIGBUS/SIGILL, or a second free of a tape block (a stale owner; detected by the allocator) = violation; a normal return after the refusal is a violation unless the log is the complete canonical sequence (the failure was then evidently handled without harm, e.g. by a successful retry); the events logged before the end must be a canonical prefix. A fifth of the cases refuse nothing and instead, after the program has returned, ask its tape for 2^40..2^62 cells (make_accessible above / below / both sides, a far write, a far move + write): the process may end by abort or panic; if the call returns, every probed offset the tape reports accessible must lie inside a live block of the allocator (`stale-tape` otherwise); if it panics, the panic is caught first and the tape examined as a caller who goes on would see it - three cells marked before the request must read back, a never-written cell far away must read 0, nothing unbacked may be reported accessible - and then the panic is resumed. Non-trivial: the refused request is a tape re-allocation (an older non-empty tape exists); distinct = distinct (program, input, width, back end, level, k)".into()
    }
    fn assumptions(&self) -> Vec<String> {
        vec!["the guard-page allocator unmaps freed blocks and fences live ones, so touching a null, stale or foreign tape faults instead of passing silently".into()]
    }
    fn cases(&self, tier: Tier) -> u64 {
        match tier {
            Tier::Quick => 1_500,
            Tier::Thorough => 40_000,
        }
    }
    fn mix(&self, _tier: Tier) -> Mix {
        Mix { raw: 10, strukt: 20, div: 0, wide: 0, big: 0, roam: 70, deep: 0, commented: 0, hibits: 0 }
    }
    fn max_steps(&self) -> u64 {
        500_000
    }
    fn make_cfgs(&self, sel: &Sel, _p: &str, _i: &[u8], _b: u32, _r: &RefRun) -> Vec<RunCfg> {
        let backend = [Backend::Inplace, Backend::Ir, Backend::Bc, Backend::Jit][(sel.d % 4) as usize];
        let any = sel.c % 4 == 0;
        let alloc = Alloc { mode: 1 + (sel.a % 3) as u8, fail_zeroed_at: if any { None } else { Some(sel.b) }, fail_any_at: if any { Some(sel.b) } else { None } };
        // a third of the cases start with a context that already owns a (guarded) tape
        if sel.c % 5 == 2 {
            // no refusal: after the program, a request that no allocator can satisfy
            let huge = crate::exec::Huge { kind: (sel.a % 6) as u8, exp: if sel.b % 2 == 0 { 59 + (sel.b / 2 % 4) as u8 } else { 40 + (sel.b / 2 % 19) as u8 }, jitter: (sel.d % 7) as i8 - 3 };
            let alloc = Alloc { mode: 1 + (sel.a % 3) as u8, fail_zeroed_at: None, fail_any_at: None };
            return vec![RunCfg { alloc, pre_tape: sel.c % 3 == 1, huge: Some(huge), ..RunCfg::plain(backend, sel.level.min(3)) }];
        }
        vec![RunCfg { alloc, pre_tape: sel.c % 3 == 1, ..RunCfg::plain(backend, sel.level.min(3)) }]
    }
    fn nontrivial(&self, _c: &ProgCase, _r: &RefRun, _obs: &[Option<Obs>], _stats: &mut Stats) -> bool {
        false
    }
    fn custom_check(&self, c: &ProgCase, r: &RefRun, stats: &mut Stats) -> Option<Outcome> {
        let cfg = c.cfgs[0];
        if let Some(h) = cfg.huge {
            return Some(self.check_huge(c, r, cfg, h, stats));
        }
        let thorough = crate::props::c08::tier_is_thorough();
        // 1. baseline: same configuration, nothing refused
        let base = RunCfg { alloc: Alloc { fail_zeroed_at: None, fail_any_at: None, ..cfg.alloc }, ..cfg };
        let run = judge::run_child(&c.program, &c.input, c.bits, &[base], r, judge::window(r.steps, 1));
        let obs = run.obs.iter().find(|o| o.cfg == 0);
        let ok = matches!(judge::judge(r, 0, &base, obs, &run.exit), judge::Verdict::Ok);
        let obs = match (ok, obs) {
            (true, Some(o)) => o,
            _ => return Some(Outcome::Skip("baseline run under the guard allocator did not pass (left to C06)")),
        };
        let total_z: u32 = obs.note("zallocs_total").and_then(|v| v.parse().ok()).unwrap_or(0);
        let total_a: u32 = obs.note("allocs").and_then(|v| v.parse().ok()).unwrap_or(0);
        let zeroed = cfg.alloc.fail_zeroed_at.is_some();
        let total = if zeroed { total_z } else { total_a };
        if total == 0 {
            return Some(Outcome::Skip("run makes no allocation of the selected kind"));
        }
        let sel = cfg.alloc.fail_zeroed_at.or(cfg.alloc.fail_any_at).unwrap();
        let ks: Vec<u32> = if thorough && zeroed && total <= 12 { (0..total).collect() } else { vec![sel % total] };
        let mut nontrivial = false;
        for k in ks {
            let fc = RunCfg { alloc: Alloc { mode: cfg.alloc.mode, fail_zeroed_at: if zeroed { Some(k) } else { None }, fail_any_at: if zeroed { None } else { Some(k) } }, ..cfg };
            let run = judge::run_child(&c.program, &c.input, c.bits, &[fc], r, judge::window(r.steps, 1));
            let o = match run.obs.iter().find(|o| o.cfg == 0) {
                Some(o) => o,
                None => return Some(Outcome::Inconclusive("child logged nothing".into())),
            };
            let refused = o.note("refused");
            let canon = judge::expected_prefix(r, o.events.len());
            let desc = format!("[{} refusing {} #{k} of {total}]", fc.describe(c.bits), if zeroed { "zero-initialised allocation" } else { "allocation" });
            if o.events.len() > canon.len() || o.events[..] != canon[..o.events.len()] {
                return Some(Outcome::Fail(Fail { kind: "mismatch".into(), detail: format!("{desc} events before the allocation failure are not a canonical prefix"), cfg: None }));
            }
            let refused = match refused {
                Some(rf) => rf.to_string(),
                None => {
                    if matches!(o.end, End::Returned(_)) {
                        stats.class("refusal-not-reached");
                        continue;
                    }
                    return Some(Outcome::Inconclusive(format!("{desc} ended {:?} without reaching the refusal", run.exit)));
                }
            };
            stats.class(if zeroed { "refused:zeroed" } else { "refused:any-kind" });
            if fc.pre_tape {
                stats.class("context-owned-a-tape-before-the-call");
            }
            if let Some(df) = o.note("double-free").or(run.note("double-free")) {
                return Some(Outcome::Fail(Fail { kind: "double-free".into(), detail: format!("{desc} after the refusal {df}"), cfg: None }));
            }
            match (&o.end, &run.exit) {
                (End::Returned(_), _) => {
                    // The call came back although a request was refused. That is harmless only if the failure was
                    // handled without losing anything (e.g. a successful retry with another size): the log must then
                    // be the complete canonical sequence. Anything else means execution went on with a tape that
                    // is not the one the program needs.
                    if o.events != r.events {
                        return Some(Outcome::Fail(Fail { kind: "continued-after-alloc-failure".into(), detail: format!("{desc} the call returned normally after the allocator refused a request (size,live,zeroed = {refused}) with {} of {} canonical events", o.events.len(), r.events.len()), cfg: None }));
                    }
                    stats.class("returned-with-complete-output-after-refusal(handled)");
                    continue;
                }
                (End::Panicked(_), _) => stats.class("ended-by-panic"),
                (End::Cut, Exit::Signal(s)) if *s == libc::SIGABRT => stats.class("ended-by-abort"),
                (End::Cut, Exit::Signal(s)) => {
                    return Some(Outcome::Fail(Fail { kind: format!("crash:{}", child::signal_name(*s)), detail: format!("{desc} killed by {} after the allocator refused a request (size,live,zeroed = {refused})", child::signal_name(*s)), cfg: None }));
                }
                (End::Cut, Exit::Timeout) => return Some(Outcome::Inconclusive(format!("{desc} timeout after refusal"))),
                (End::Cut, e) => return Some(Outcome::Fail(Fail { kind: "exit".into(), detail: format!("{desc} process ended {:?} after the refusal", e), cfg: None })),
            }
            // re-allocation of a non-empty tape: some guarded bytes were live and the request is a tape (zeroed) one
            let parts: Vec<u64> = refused.split(',').filter_map(|x| x.parse().ok()).collect();
            let first_tape = if fc.backend == Backend::Bc { 1 } else { 0 };
            if parts.len() == 3 && parts[2] == 1 && zeroed && k > first_tape {
                nontrivial = true;
                stats.class("refused-a-tape-regrowth");
                if r.min_ptr < 0 {
                    stats.class("regrowth-program-goes-left");
                }
            }
        }
        record_common(c, r, stats);
        Some(Outcome::Pass { nontrivial })
    }
    fn floors(&self, tier: Tier) -> Vec<(&'static str, u64)> {
        let q = if tier == Tier::Quick { 1 } else { 20 };
        vec![("nontrivial", 50 * q), ("refused:zeroed", 250 * q), ("refused:any-kind", 80 * q), ("unsatisfiable-request", 150 * q)]
    }
}
