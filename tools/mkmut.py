#!/usr/bin/env python3
"""mkmut.py <name> <file relative to /repo> <old> <new> [occurrence]  -> /tmp/mpatch/<name>.diff (against /repo HEAD)"""
import sys, subprocess, tempfile, os, shutil
name, rel, old, new = sys.argv[1:5]
occ = int(sys.argv[5]) if len(sys.argv) > 5 else 0
src = subprocess.run(['git','-C','/repo','show','HEAD:'+rel],capture_output=True,text=True,check=True).stdout
parts = src.split(old)
assert len(parts) > 1, "old text not found"
if occ == 0:
    assert len(parts) == 2, f"old text occurs {len(parts)-1} times; give an occurrence index (1-based)"
    out = parts[0] + new + parts[1]
else:
    out = old.join(parts[:occ]) + new + old.join(parts[occ:])
d = tempfile.mkdtemp()
os.makedirs(os.path.join(d,'a',os.path.dirname(rel)),exist_ok=True); os.makedirs(os.path.join(d,'b',os.path.dirname(rel)),exist_ok=True)
open(os.path.join(d,'a',rel),'w').write(src); open(os.path.join(d,'b',rel),'w').write(out)
diff = subprocess.run(['diff','-u',os.path.join('a',rel),os.path.join('b',rel)],cwd=d,capture_output=True,text=True).stdout
open(f'/tmp/mpatch/{name}.diff','w').write(diff)
shutil.rmtree(d)
print(f'/tmp/mpatch/{name}.diff', len(diff.splitlines()), 'lines')
