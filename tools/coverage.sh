#!/bin/bash
# Line coverage of /repo/src reached by the generators of the given checks (a development aid for
# the generators, not a check): tools/coverage.sh C01 C02 ...   -> report on stdout, details in /tmp/cov
set -u
cd "$(dirname "$0")/../harness"
BIN=$HOME/.rustup/toolchains/nightly-x86_64-unknown-linux-gnu/lib/rustlib/x86_64-unknown-linux-gnu/bin
RUSTFLAGS="-C instrument-coverage" cargo +nightly build --quiet --release --features cov --target-dir target/cov || exit 2
rm -rf /tmp/cov; mkdir -p /tmp/cov/out; ln -s /verif/corpus /tmp/cov/out/corpus
for ID in "$@"; do
  LLVM_PROFILE_FILE=/tmp/cov/raw-%8m.profraw VERIF_NO_DBG=1 VERIF_DIR=/tmp/cov/out VERIF_CASE_SCALE=${SCALE:-0.25} target/cov/release/hv check "$ID" 2>&1 | tail -1 | cut -c1-160
done
$BIN/llvm-profdata merge -sparse /tmp/cov/raw-*.profraw -o /tmp/cov/all.profdata
$BIN/llvm-cov report target/cov/release/hv -instr-profile=/tmp/cov/all.profdata /repo/src 2>/dev/null | grep -E "Filename|repo/src|TOTAL" | awk '{print $1, $8, $9, $10}'
for f in opt.rs bc.rs exec/basejit/codegen.rs exec/bcint/ops.rs ir.rs; do
  $BIN/llvm-cov show target/cov/release/hv -instr-profile=/tmp/cov/all.profdata /repo/src/$f -show-line-counts-or-regions 2>/dev/null > /tmp/cov/$(basename $f).txt
done
echo "annotated sources in /tmp/cov/*.txt (lines with count 0 are not reached)"
