#!/bin/bash
# usage: tools-replay-all.sh <ID> [dir]   -- rebuild (release+dbgassert), replay every stored finding of <ID>
cd "$(dirname "$0")/.."
ID=$1; DIR=${2:-findings/$ID}
( cd harness && cargo build --quiet --release 2>/dev/null && cargo build --quiet --profile dbgassert 2>/dev/null ) || { echo build failed; exit 2; }
for f in $DIR/*.json; do
  prof=$(python3 -c "import json;print(json.load(open('$f')).get('profile','release'))")
  printf "%s [%s] " "$f" "$prof"; ./harness/target/$prof/hv check $ID --replay $f 2>&1 | head -2 | tr '\n' ' ' | cut -c1-220; echo
done
