#!/usr/bin/env python3
"""Regenerates /verif/MANIFEST.json from the table below (kept in one place so it stays valid)."""
import json, subprocess
props = [json.loads(l) for l in open('/verif/properties.jsonl')]
hook_commits = subprocess.run(['git','-C','/repo','log','--format=%h %s'],capture_output=True,text=True).stdout.splitlines()
hook_commits = [l.split()[0] for l in hook_commits if 'verif hook' in l][::-1]
REF = "trusted base: harness/src/refmodel.rs (canonical interpreter, ~200 lines), harness/src/judge.rs (comparison), fork/shared-memory plumbing; only programs whose canonical run is classified within the step limit are explored"
C = {
 'C01': ('exploration', "generated programs x inputs x widths x levels 0..3,4+ run by the IR interpreter and compared event-for-event with a reference interpreter; structural check optimize(n>3)==optimize(3)", REF, "property-based testing (proptest): program generators + reference-model oracle, shrinking + ddmin"),
 'C02': ('exploration', "as C01 for the bytecode interpreter, every case in the release (tail-call) and the debug-assertions (trampoline) build", REF, "property-based testing: reference-model oracle, two build profiles"),
 'C03': ('exploration', "as C01 for the baseline JIT, with a generator aimed at stack temporaries and 64-bit immediates; instruction-selector arm coverage is measured from the bytecode the JIT holds; 2-of-3 differential vote where the canonical run is infeasible", REF + "; the vote oracle cannot see a defect shared by all three back ends", "property-based testing: reference-model oracle + differential vote, selector-arm coverage floor"),
 'C04': ('exploration', "generated programs x inputs x widths run by the in-place interpreter, compared event-for-event with an independent reference interpreter", REF, "property-based testing: reference-model oracle"),
 'C05': ('exploration', "programs with candidate infinite loops, canonical run classified Halt/Diverges by exact state repetition; termination, budget-limited prefix, refusing-sink prefix and 'plain execute does not return within a window' are checked on all back ends", REF + "; non-termination is observed for a finite window only (a return is a definite violation)", "property-based testing: reference model with cycle detection; timing-free divergence oracles"),
 'C06': ('exploration', "roaming programs on all back ends under a guard-page allocator (every block fenced by PROT_NONE pages, flush left/right/alternating, freed blocks unmapped); oracle: no fault and canonical events", REF + "; an overrun is seen on the flush side exactly, on the other side beyond a page", "property-based testing with a fault-revealing allocator"),
 'C07': ('exploration', "execute_limited with drawn budgets on all back ends; finished => complete canonical log, interrupted => canonical prefix, unlimited budget finishes halting programs, divergent programs never finish", REF, "property-based testing: reference-model prefix oracle"),
 'C08': ('fault_enumeration', "I/O fault plans (k-th write refused/errs, j-th read errs, input absent) drawn from the canonical event list, every position enumerated for programs with few events; attempts log must stop exactly at the failing operation on every back end", REF + "; LLVM back end not buildable here", "fault injection through Read/Write objects, enumerated per program"),
 'C10': ('exploration', "execute_unsafe inside make_accessible(min-L, max+L+1) fenced by guard pages on either side, bytecode interpreter and JIT", REF, "property-based testing with a fault-revealing allocator"),
 'C17': ('fault_enumeration', "the k-th (zeroed | any) allocation is refused under the guard allocator; the child must end by abort or panic, never by SIGSEGV or a normal return", REF, "allocation fault injection, k enumerated per program in the thorough tier"),
 'C18': ('exploration', "operation histories on SmallVec<T,1|2> against a Vec model with a drop tracker, one forked child per history", "trusted base: Vec as the model; the drop tracker in harness/src/props/c18.rs", "model-based property testing (histories as vec(op))"),
}
checks = []
for p in props:
    i = p['id']
    if i in C:
        cat, text, note, tech = C[i]
        checks.append({"property_id": i, "quick_cmd": f"./check {i} --tier quick", "thorough_cmd": f"./check {i} --tier thorough", "evidence_file": f"/verif/evidence/{i}.json", "replay_cmd_template": f"./check {i} --replay {{path}}", "engine": "hv", "level_claimed": {"category": cat, "text": text, "design_ref": f"DESIGN.md section 3 ({i})"}, "level_note": note, "technique": tech})
m = {"version": 1,
 "setup_cmd": "cd /verif/harness && CARGO_NET_OFFLINE=true cargo build --release && CARGO_NET_OFFLINE=true cargo build --profile dbgassert",
 "hooks": {"guard": "cargo feature `verif` of the hpbf crate (off by default)", "enable": "the harness depends on hpbf with features = [\"verif\"] (harness/Cargo.toml); ./check rebuilds it from /repo's working tree", "baseline_off_cmd": "cd /repo && cargo test --workspace --no-fail-fast --offline", "source_commits": hook_commits, "add_only": True},
 "engines": [{"name": "hv", "path": "/verif/harness", "serves_properties": sorted(C), "kind_free_text": "Rust harness: proptest generators and shrinking, reference interpreter oracle, fork-isolated execution of the real code with a shared-memory event log, guard-page / fault-injecting allocator"}],
 "checks": checks,
 "notes": "exit 0 = held on everything explored; exit 1 + VIOLATION lines = violation; exit 2 = the check could not do its job (build failure, generator floor missed). known_findings.txt lists repaired defects (fixed:) - there are no open findings.",
 "not_applicable": [{"property_id": p['id'], "reason": "check not implemented yet (work in progress, see DESIGN.md section 10)"} for p in props if p['id'] not in C]}
json.dump(m, open('/verif/MANIFEST.json', 'w'), indent=1)
print(len(checks), "checks")
