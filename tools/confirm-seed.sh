#!/bin/bash
# Confirm an independently written breaking change before it is kept under seeded/:
#   tools/confirm-seed.sh <dir with patch.diff + demo> <kind: test|example|example-release|sh> <demo file>
# Checks in a scratch worktree of /repo: (1) demo passes without the change, (2) the change compiles and the
# repository's own test suite still passes, (3) demo fails with the change. Prints one summary line.
set -u
SRC=$(realpath "$1"); KIND=$2; DEMO=$3
N=$(basename "$SRC"); W=/tmp/confirm/$N
rm -rf "$W"; git -C /repo worktree prune; mkdir -p /tmp/confirm
git -C /repo worktree add -q --detach "$W" "${BASE:-HEAD}" || exit 2
trap 'git -C /repo worktree remove --force "$W" 2>/dev/null; rm -rf "$W"' EXIT
export CARGO_TARGET_DIR="$W/target" CARGO_NET_OFFLINE=true
cd "$W"
place() { case "$KIND" in
  test*) mkdir -p tests; cp "$SRC/$DEMO" tests/seed_demo.rs;;
  example*) cp "$SRC/$DEMO" examples/seed_demo.rs;;
  sh) sed "s#/tmp/wt/$N#$W#g" "$SRC/$DEMO" > "$W/seed_demo.sh";;
esac; }
unplace() { rm -rf tests examples/seed_demo.rs seed_demo.sh; }
rundemo() { case "$KIND" in
  test) cargo test --offline --test seed_demo > "$W/demo.log" 2>&1;;
  test-release) cargo test --offline --release --test seed_demo > "$W/demo.log" 2>&1;;
  test-verif) cargo test --offline --features verif --test seed_demo > "$W/demo.log" 2>&1;;
  example) cargo run --offline --example seed_demo > "$W/demo.log" 2>&1;;
  example-release) cargo run --offline --release --example seed_demo > "$W/demo.log" 2>&1;;
  example-verif) cargo run --offline --features verif --example seed_demo > "$W/demo.log" 2>&1;;
  sh) cargo build --offline > /dev/null 2>&1; cargo build --offline --release > /dev/null 2>&1; bash "$W/seed_demo.sh" "$W" > "$W/demo.log" 2>&1;;
esac; echo $?; }
place; WITHOUT=$(rundemo); unplace
git apply "$SRC/patch.diff" || { echo "SEED $N: patch does not apply"; exit 2; }
cargo test --offline > "$W/suite.log" 2>&1; SUITE=$?
PASSED=$(grep -E "^test result: ok. 186 passed" "$W/suite.log" | wc -l)
DOC=$(grep -E "^test result: ok. 12 passed" "$W/suite.log" | wc -l)
place; WITH=$(rundemo); unplace
echo "SEED $N demo_without_change_exit=$WITHOUT suite_exit=$SUITE unit186=$PASSED doc12=$DOC demo_with_change_exit=$WITH"
