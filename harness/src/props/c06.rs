//! C06 - checked mode never touches memory outside the tape, however far it roams.
use crate::bf::Mix;
use crate::child::Obs;
use crate::engine::{Stats, Tier};
use crate::exec::{Alloc, Backend, RunCfg};
use crate::progs::{ProgCase, ProgProperty, Sel};
use crate::refmodel::RefRun;

pub struct C06;

impl ProgProperty for C06 {
    fn id(&self) -> &'static str {
        "C06"
    }
    fn rule(&self) -> String {
        "roaming programs (carry loops leaving breadcrumbs, sentinel scans in both directions, far moves, revisits; 70%) plus structured/raw programs, x input x width, run by execute on all four back ends (in-place, and IR/bytecode/JIT at 2 drawn levels each) under the guard-page allocator: every heap block is its own mapping fenced by PROT_NONE pages, placed flush right, flush left or alternating (drawn), freed blocks are unmapped. Oracle: no SIGSEGV/SIGBUS and the event log equals the reference. Non-trivial: the canonical pointer span exceeds 1000 cells, or the tape was (re)allocated at least twice with the canonical run going left of the origin; distinct = distinct (program, input, width)".into()
    }
    fn assumptions(&self) -> Vec<String> {
        vec![
            "an out-of-bounds access is observed as a fault only if it leaves the block's page run: flush placement makes one side exact (first/last byte adjacent to a guard page), the other side has up to a page of slack, hence both placements are drawn".into(),
            "blocks whose size is not a multiple of their alignment are aligned down in flush-right placement (slack < alignment)".into(),
        ]
    }
    fn cases(&self, tier: Tier) -> u64 {
        match tier {
            Tier::Quick => 40_000,
            Tier::Thorough => 1_000_000,
        }
    }
    fn mix(&self, _tier: Tier) -> Mix {
        Mix { raw: 10, strukt: 20, div: 0, wide: 0, big: 0, roam: 70, deep: 0, commented: 0, hibits: 0 }
    }
    fn max_steps(&self) -> u64 {
        1_500_000
    }
    fn make_cfgs(&self, sel: &Sel, _p: &str, _i: &[u8], _b: u32, _r: &RefRun) -> Vec<RunCfg> {
        let mode = 1 + (sel.a % 3) as u8;
        let alloc = Alloc { mode, fail_zeroed_at: None, fail_any_at: None };
        let l1 = sel.level.min(3);
        let l2 = (l1 + 1 + sel.b % 3) % 4;
        let mut v = vec![RunCfg { alloc, ..RunCfg::plain(Backend::Inplace, 0) }];
        for b in [Backend::Ir, Backend::Bc, Backend::Jit] {
            v.push(RunCfg { alloc, ..RunCfg::plain(b, l1) });
            v.push(RunCfg { alloc, ..RunCfg::plain(b, l2) });
        }
        v
    }
    fn nontrivial(&self, c: &ProgCase, r: &RefRun, obs: &[Option<Obs>], stats: &mut Stats) -> bool {
        let mut max_z = 0u64;
        for o in obs.iter().flatten() {
            if let Some(z) = o.note("zallocs").and_then(|v| v.parse::<u64>().ok()) {
                max_z = max_z.max(z);
            }
        }
        stats.max("max-zeroed-allocations-in-one-run", max_z);
        stats.max("max-pointer-span", (r.max_ptr - r.min_ptr) as u64);
        stats.class(&format!("placement:{}", ["off", "flush-right", "flush-left", "alternating"][c.cfgs[0].alloc.mode as usize]));
        let regrow = max_z >= 3; // bytecode interpreter: context + first tape + at least one growth
        if regrow {
            stats.class("tape-reallocated")
        }
        if r.min_ptr < 0 {
            stats.class("went-left-of-origin")
        }
        if regrow && r.min_ptr < 0 {
            stats.class("reallocated-and-left")
        }
        (r.max_ptr - r.min_ptr) > 1000 || (regrow && r.min_ptr < 0)
    }
    fn floors(&self, tier: Tier) -> Vec<(&'static str, u64)> {
        let q = if tier == Tier::Quick { 1 } else { 20 };
        vec![("nontrivial", 4000 * q), ("span>1000", 2500 * q), ("reallocated-and-left", 2500 * q)]
    }
}
