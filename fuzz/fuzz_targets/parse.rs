#![no_main]
// C12: parser acceptance / error positions vs. a bracket matcher; comment insensitivity.
use arbitrary::Unstructured;
use hpbf_verif::{fuzzdec, props::c12};
use libfuzzer_sys::fuzz_target;

fuzz_target!(|data: &[u8]| {
    let mut u = Unstructured::new(data);
    let Ok(c) = fuzzdec::parse_case(&mut u) else { return };
    if c.source.chars().filter(|ch| *ch == '[').count() > 200 {
        return;
    }
    if let Err((kind, msg)) = c12::parse_checks(&c) {
        panic!("VIOLATION C12 {kind}: {msg} CASE {}", serde_json::to_string(&c).unwrap());
    }
});
