//! C08 - I/O failures stop the program cleanly and identically on every backend.
use crate::bf::Mix;
use crate::child::Obs;
use crate::engine::{Stats, Tier};
use crate::exec::{Backend, Fault, Mode, RunCfg};
use crate::judge::UNLIMITED_BUDGET;
use crate::progs::{ProgCase, ProgProperty, Sel};
use crate::refmodel::{Ev, Fate, RefRun};

pub struct C08;

pub fn tier_is_thorough() -> bool {
    crate::TIER_THOROUGH.load(std::sync::atomic::Ordering::Relaxed)
}

impl ProgProperty for C08 {
    fn id(&self) -> &'static str {
        "C08"
    }
    fn level(&self) -> &'static str {
        "fault_enumeration"
    }
    fn rule(&self) -> String {
        "structured / raw programs x input x width; fault plans drawn from the canonical event list so the fault is always reached: the k-th output write returns Ok(0), or returns Err, or the j-th input request returns Err (the io::ErrorKind varies with the position: Interrupted, Other, BrokenPipe, WouldBlock, PermissionDenied, UnexpectedEof, TimedOut, WriteZero), or the input source is absent; plus a control group without fault (end of input reads 0 and continues; absent output sink discards bytes). Every plan runs on all four back ends (one level each, drawn) through execute and through execute_limited with budget 2^62. For programs with few canonical events (<= 6 quick, <= 24 thorough) every fault position is enumerated instead of one drawn. Oracle: the attempts log equals the canonical events up to and including the failing attempt, nothing after it; the call returns Ok; no panic, no signal. Non-trivial: the fault position lies after at least 3 events or inside a loop body that the canonical run repeats; distinct = distinct (program, input, width, fault plan)".into()
    }
    fn assumptions(&self) -> Vec<String> {
        vec!["the LLVM back end named in the property's anchors cannot be built here (LLVM 17 / inkwell not installed) and is not exercised".into()]
    }
    fn cases(&self, tier: Tier) -> u64 {
        match tier {
            Tier::Quick => 30_000,
            Tier::Thorough => 600_000,
        }
    }
    fn mix(&self, _tier: Tier) -> Mix {
        Mix { raw: 30, strukt: 60, div: 10, wide: 0, big: 0, roam: 0, deep: 0, commented: 3, hibits: 0 }
    }
    fn max_steps(&self) -> u64 {
        300_000
    }
    fn admit(&self, r: &RefRun) -> Result<(), &'static str> {
        match r.fate {
            Fate::Halt => Ok(()),
            // a divergent run that keeps requesting I/O must also stop at the failing operation
            Fate::Diverges if !r.events.is_empty() => Ok(()),
            Fate::Diverges => Err("canonical run diverges without events"),
            Fate::Unknown => Err("canonical run exceeds the step limit"),
        }
    }
    fn make_cfgs(&self, sel: &Sel, _p: &str, _i: &[u8], _b: u32, r: &RefRun) -> Vec<RunCfg> {
        let nout = r.events.iter().filter(|e| matches!(e, Ev::Out(_))).count();
        let nin = r.events.len() - nout;
        let mut faults: Vec<Fault> = vec![];
        let enumerate_up_to = if tier_is_thorough() { 24 } else { 6 };
        if r.events.len() <= enumerate_up_to && !r.events.is_empty() {
            for k in 0..nout {
                faults.push(Fault::OutZeroAt(k));
                faults.push(Fault::OutErrAt(k));
            }
            for k in 0..nin {
                faults.push(Fault::InErrAt(k));
            }
            if nin > 0 {
                faults.push(Fault::InAbsent);
            }
        } else {
            let f = match sel.a % 10 {
                0 | 1 | 2 if nout > 0 => Fault::OutZeroAt(sel.b as usize % nout),
                3 | 4 if nout > 0 => Fault::OutErrAt(sel.b as usize % nout),
                5 | 6 if nin > 0 => Fault::InErrAt(sel.b as usize % nin),
                7 if nin > 0 => Fault::InAbsent,
                8 => Fault::OutAbsent,
                _ => Fault::None,
            };
            faults.push(f);
        }
        if r.fate != Fate::Halt {
            faults.retain(|f| !matches!(f, Fault::None | Fault::OutAbsent));
        }
        let mut v = vec![];
        for f in faults {
            for (bi, b) in [Backend::Inplace, Backend::Ir, Backend::Bc, Backend::Jit].into_iter().enumerate() {
                let level = (sel.level.min(3) + bi as u32) % 4;
                let mut c = RunCfg::plain(b, level);
                c.fault = f;
                v.push(c);
                c.mode = Mode::Limited(UNLIMITED_BUDGET);
                v.push(c);
            }
        }
        v
    }
    fn nontrivial(&self, c: &ProgCase, r: &RefRun, _obs: &[Option<Obs>], stats: &mut Stats) -> bool {
        let mut nt = false;
        let mut seen = std::collections::BTreeSet::new();
        for cfg in &c.cfgs {
            if !seen.insert(format!("{:?}", cfg.fault)) {
                continue;
            }
            let (name, pos) = match cfg.fault {
                Fault::OutZeroAt(k) => ("out-returns-zero", Some((false, k))),
                Fault::OutErrAt(k) => ("out-returns-err", Some((false, k))),
                Fault::InErrAt(k) => ("in-returns-err", Some((true, k))),
                Fault::InAbsent => ("in-absent", Some((true, 0))),
                Fault::OutAbsent => ("out-absent(control)", None),
                Fault::None => ("no-fault(control)", None),
            };
            stats.class(&format!("fault:{name}"));
            if let Some((is_in, k)) = pos {
                // index of the failing event in the canonical list
                let mut n = 0;
                let mut idx = 0;
                for (i, e) in r.events.iter().enumerate() {
                    if matches!(e, Ev::In) == is_in {
                        if n == k {
                            idx = i;
                            break;
                        }
                        n += 1;
                    }
                }
                if idx >= 3 || r.back_edges > 0 {
                    nt = true;
                }
            }
        }
        if c.cfgs.len() > 8 {
            stats.class("programs-with-every-fault-position-enumerated");
        }
        stats.add("fault-plans-run", c.cfgs.len() as u64);
        nt
    }
    fn floors(&self, tier: Tier) -> Vec<(&'static str, u64)> {
        let q = if tier == Tier::Quick { 1 } else { 20 };
        vec![("nontrivial", 4000 * q), ("fault:out-returns-zero", 300 * q), ("fault:out-returns-err", 300 * q), ("fault:in-returns-err", 300 * q), ("fault:in-absent", 150 * q)]
    }
}
