//! C01 - optimisation never changes what a program reads and writes (IR interpreter).
use crate::bf::Mix;
use crate::child::Obs;
use crate::engine::{Fail, Stats, Tier};
use crate::exec::{Backend, RunCfg, PROBE_IR};
use crate::progs::{ProgCase, ProgProperty, Sel};
use crate::refmodel::RefRun;

pub struct C01;

impl ProgProperty for C01 {
    fn id(&self) -> &'static str {
        "C01"
    }
    fn rule(&self) -> String {
        "generated programs (structured idioms 55%, wide SCC 12%, raw 15%, roaming 10%, deep 5%, bigconst 3%) x input x width, run by IrInterpreter::execute at levels 0,1,2,3 and one of {4,5,17,u32::MAX}; every run is compared event-for-event with the reference; for the level above 3 additionally optimize(n) == optimize(3) structurally. Non-trivial: the canonical run repeats some loop body, produces at least one event, and level-1 optimisation changes the IR; distinct = distinct (program, input, width) A third of the halting programs at 16/32 bit and two thirds at 64 bit carry the upper-bits probe (family `...+probe`): an appended epilogue takes the canonical final value of every small-magnitude cell out again, counts the cells in which anything is left and prints the count (0 canonically), which makes the bits above the low byte observable.".into()
    }
    fn assumptions(&self) -> Vec<String> {
        vec![]
    }
    fn cases(&self, tier: Tier) -> u64 {
        match tier {
            Tier::Quick => 40_000,
            Tier::Thorough => 1_500_000,
        }
    }
    fn mix(&self, _tier: Tier) -> Mix {
        Mix { raw: 15, strukt: 55, div: 0, wide: 12, big: 3, roam: 10, deep: 5, commented: 4, hibits: 4 }
    }
    fn make_cfgs(&self, sel: &Sel, _p: &str, _i: &[u8], _b: u32, _r: &RefRun) -> Vec<RunCfg> {
        let high = [4u32, 5, 17, u32::MAX][(sel.a % 4) as usize];
        let mut v: Vec<RunCfg> = [0u32, 1, 2, 3, high].iter().map(|&l| RunCfg::plain(Backend::Ir, l)).collect();
        v[1].probes = PROBE_IR;
        v[4].probes = PROBE_IR;
        v
    }
    fn nontrivial(&self, _c: &ProgCase, r: &RefRun, obs: &[Option<Obs>], stats: &mut Stats) -> bool {
        let changed = obs.get(1).and_then(|o| o.as_ref()).and_then(|o| o.note("ir_changed")).map(|v| v == "1").unwrap_or(false);
        if changed {
            stats.class("level1-changes-ir");
        }
        r.back_edges > 0 && !r.events.is_empty() && changed
    }
    fn extra_judge(&self, c: &ProgCase, _r: &RefRun, obs: &[Option<Obs>]) -> Option<Fail> {
        for (i, o) in obs.iter().enumerate() {
            if let Some(o) = o {
                if o.note("lvl_eq3") == Some("0") {
                    return Some(Fail { kind: "level-above-3-differs".into(), detail: format!("optimize({}) != optimize(3) structurally", c.cfgs[i].level), cfg: None });
                }
            }
        }
        None
    }
    fn probe_upper_bits(&self) -> bool {
        true
    }
    fn fuzz_target(&self) -> Option<&'static str> {
        Some("prog_ir")
    }
    fn floors(&self, tier: Tier) -> Vec<(&'static str, u64)> {
        let q = if tier == Tier::Quick { 1 } else { 30 };
        vec![("nontrivial", 5000 * q), ("level1-changes-ir", 8000 * q)]
    }
}
