//! C09 - the tape API is an unbounded zero-initialised array under any call history.
use crate::engine::{Fail, Outcome, Property, Stats, Tier};
use crate::galloc;
use crate::verdict::{self, Info};
use crate::with_cell;
use hpbf::{runtime::Memory, CellType};
use proptest::collection::vec;
use proptest::prelude::*;
use serde::{Deserialize, Serialize};
use std::collections::HashMap;
use std::sync::atomic::Ordering::SeqCst;

#[derive(Serialize, Deserialize, Clone, Debug, PartialEq)]
pub enum MemOp {
    Mov(i64),
    Read(i64),
    Write(i64, u64),
    /// make_accessible(start, start + len)
    MakeAccessible(i64, u32),
    Check(i64),
    /// current_ptr / set_current_ptr round trip, moving by k cells through the raw pointer
    PtrMove(i64),
    /// check_ptr(current_ptr + off) agrees with check(off)
    CheckPtr(i64),
    /// move far outside (2^40 cells), read and check there, come back
    FarExcursion(bool),
}

#[derive(Serialize, Deserialize, Clone, Debug)]
pub struct MemCase {
    pub bits: u32,
    /// allocator placement 1 flush right, 2 flush left, 3 alternating
    pub placement: u8,
    pub ops: Vec<MemOp>,
}

const SPAN_LIMIT: i64 = 1 << 20;

pub fn run_history<C: CellType>(c: &MemCase) -> Result<Info, (String, String)> {
    let fail = |msg: String| Err(("mismatch".to_string(), msg));
    galloc::arm(c.placement as usize);
    let mut m = Memory::<C>::new();
    let mut model: HashMap<i64, C> = HashMap::new();
    let mut pos: i64 = 0;
    // logical interval that has been made accessible at some point (to bound request sizes)
    let (mut lo, mut hi) = (0i64, 0i64);
    let (mut grew_below, mut grew_above, mut grew_both_at_once, mut far) = (0u32, 0u32, 0u32, 0u32);
    let mut allocs_seen = 0usize;
    for (step, op) in c.ops.iter().enumerate() {
        let count0 = galloc::COUNT.load(SeqCst);
        match *op {
            MemOp::Mov(d) => {
                m.mov(d as isize);
                pos += d;
                if galloc::COUNT.load(SeqCst) != count0 {
                    return fail(format!("step {step} {op:?}: mov allocated"));
                }
            }
            MemOp::Read(off) => {
                let got = m.read(off as isize);
                if galloc::COUNT.load(SeqCst) != count0 {
                    return fail(format!("step {step} {op:?}: read allocated"));
                }
                let want = model.get(&(pos + off)).copied().unwrap_or(C::ZERO);
                if got != want {
                    return fail(format!("step {step} {op:?}: read at logical cell {} returned {:?}, last written {:?}", pos + off, got, want));
                }
            }
            MemOp::Write(off, v) => {
                let cell = pos + off;
                if cell.min(lo) < hi.max(cell) - SPAN_LIMIT {
                    continue; // would make the requested span unallocatable; not part of the domain
                }
                let below = cell < lo;
                let above = cell >= hi;
                let val = C::from_u64(v);
                m.write(off as isize, val);
                model.insert(cell, val);
                if galloc::COUNT.load(SeqCst) != count0 {
                    if below {
                        grew_below += 1
                    }
                    if above {
                        grew_above += 1
                    }
                    allocs_seen += 1;
                }
                lo = lo.min(cell);
                hi = hi.max(cell + 1);
                if !m.check(off as isize) {
                    return fail(format!("step {step} {op:?}: written cell is not reported accessible"));
                }
                if m.read(off as isize) != val {
                    return fail(format!("step {step} {op:?}: read after write returned {:?}", m.read(off as isize)));
                }
            }
            MemOp::MakeAccessible(start, len) => {
                let (s, e) = (pos + start, pos + start + len as i64);
                if s.min(lo) < hi.max(e) - SPAN_LIMIT {
                    continue;
                }
                let below = s < lo;
                let above = e > hi;
                m.make_accessible(start as isize, (start + len as i64) as isize);
                if galloc::COUNT.load(SeqCst) != count0 {
                    allocs_seen += 1;
                    if below && above {
                        grew_both_at_once += 1
                    } else if below {
                        grew_below += 1
                    } else if above {
                        grew_above += 1
                    }
                }
                lo = lo.min(s);
                hi = hi.max(e);
                for o in start..start + len as i64 {
                    if !m.check(o as isize) {
                        return fail(format!("step {step} {op:?}: offset {o} of the requested range is not accessible afterwards"));
                    }
                }
            }
            MemOp::Check(off) => {
                let a = m.check(off as isize);
                if galloc::COUNT.load(SeqCst) != count0 {
                    return fail(format!("step {step} {op:?}: check allocated"));
                }
                let cell = pos + off;
                if a {
                    // accessible cells can be read without growth and hold the model value
                    let want = model.get(&cell).copied().unwrap_or(C::ZERO);
                    if m.read(off as isize) != want {
                        return fail(format!("step {step} {op:?}: accessible cell {cell} reads {:?}, model {:?}", m.read(off as isize), want));
                    }
                } else if model.contains_key(&cell) {
                    return fail(format!("step {step} {op:?}: written cell {cell} is reported inaccessible"));
                }
            }
            MemOp::PtrMove(k) => {
                let p = m.current_ptr();
                m.set_current_ptr(p);
                let p2 = m.current_ptr();
                if p != p2 {
                    return fail(format!("step {step} {op:?}: set_current_ptr(current_ptr()) moved the pointer"));
                }
                m.set_current_ptr(p.wrapping_offset(k as isize));
                pos += k;
                if m.current_ptr() != p.wrapping_offset(k as isize) {
                    return fail(format!("step {step} {op:?}: pointer not at the position it was set to"));
                }
            }
            MemOp::CheckPtr(off) => {
                let p = m.current_ptr().wrapping_offset(off as isize);
                let a = m.check_ptr(p);
                let b = m.check(off as isize);
                if a != b {
                    return fail(format!("step {step} {op:?}: check_ptr = {a} but check = {b}"));
                }
            }
            MemOp::FarExcursion(left) => {
                let d: i64 = if left { -(1 << 40) } else { 1 << 40 };
                m.mov(d as isize);
                let r = m.read(0);
                let a = m.check(0);
                let r2 = m.read(3);
                m.mov(-d as isize);
                if galloc::COUNT.load(SeqCst) != count0 {
                    return fail(format!("step {step} {op:?}: far read/check allocated"));
                }
                if r != C::ZERO || r2 != C::ZERO || a {
                    return fail(format!("step {step} {op:?}: far cell reads {:?}/{:?}, accessible = {a}", r, r2));
                }
                far += 1;
            }
        }
        if step % 8 == 7 {
            for (&k, &v) in model.iter() {
                if m.read((k - pos) as isize) != v {
                    return fail(format!("after step {step} {op:?}: logical cell {k} holds {:?}, last written {:?}", m.read((k - pos) as isize), v));
                }
            }
        }
    }
    for (&k, &v) in model.iter() {
        if m.read((k - pos) as isize) != v {
            return fail(format!("at the end: logical cell {k} holds {:?}, last written {:?}", m.read((k - pos) as isize), v));
        }
    }
    // a cell that was never written reads zero, also inside the allocation
    for k in lo - 2..hi + 2 {
        if !model.contains_key(&k) && m.read((k - pos) as isize) != C::ZERO {
            return fail(format!("at the end: never-written logical cell {k} reads {:?}", m.read((k - pos) as isize)));
        }
        if k - lo > 5000 {
            break;
        }
    }
    drop(m);
    galloc::disarm();
    let nt = (grew_below > 0 && grew_above > 0) || grew_both_at_once > 0 || (far > 0 && allocs_seen > 0);
    let mut info = Info::new(nt);
    if grew_below > 0 {
        info.classes.push("grew-below".into())
    }
    if grew_above > 0 {
        info.classes.push("grew-above".into())
    }
    if grew_both_at_once > 0 {
        info.classes.push("one-request-sticking-out-on-both-sides".into())
    }
    if far > 0 {
        info.classes.push("far-excursion".into())
    }
    info.maxima.push(("max-reallocations-in-one-history".into(), allocs_seen as u64));
    info.maxima.push(("max-span".into(), (hi - lo) as u64));
    info.classes.push(format!("width:{}", C::BITS));
    Ok(info)
}

pub struct C09;

fn offset() -> impl Strategy<Value = i64> {
    prop_oneof![4 => -4i64..5, 2 => -200i64..201, 1 => -20_000i64..20_001, 1 => -3000i64..1, 1 => 0i64..3001, 2 => -32i64..33]
}

impl Property for C09 {
    type Gen = MemCase;
    type Case = MemCase;
    fn id(&self) -> &'static str {
        "C09"
    }
    fn rule(&self) -> String {
        "histories of 1..80 calls on runtime::Memory<C> (mov, read, write, make_accessible(s, e) with s <= e, check, current_ptr/set_current_ptr round trips and raw-pointer moves, check_ptr, excursions of 2^40 cells with read/check there) with offsets of either sign drawn from {+-4, +-32, +-200, +-3000, +-20000}; cell type u8/u16/u32/u64; guard-page allocator armed (placement drawn), one forked child per history. Oracle: HashMap<logical index, value> model plus a logical position: every read equals the model (0 if never written), full model comparison every 8 steps and at the end, never-written cells inside the allocation read 0, every offset of a requested range reports accessible afterwards, the allocation counter is unchanged across read/check/mov, check_ptr agrees with check, no guard-page fault. Requests that would stretch the ever-requested span beyond 2^20 cells are not issued (they are not allocatable). Non-trivial: the history grows the tape both below and above, or one request sticks out on both sides at once, or a far excursion happens on an allocated tape; distinct = distinct history".into()
    }
    fn assumptions(&self) -> Vec<String> {
        vec!["make_accessible is only called with start <= end (every caller in the crate does)".into()]
    }
    fn cases(&self, tier: Tier) -> u64 {
        match tier {
            Tier::Quick => 40_000,
            Tier::Thorough => 1_000_000,
        }
    }
    fn strategy(&self, _tier: Tier) -> BoxedStrategy<MemCase> {
        let op = prop_oneof![
            4 => offset().prop_map(MemOp::Mov),
            4 => offset().prop_map(MemOp::Read),
            6 => (offset(), any::<u64>()).prop_map(|(o, v)| MemOp::Write(o, v)),
            3 => (offset(), prop_oneof![3 => 0u32..300, 1 => 0u32..5000]).prop_map(|(o, l)| MemOp::MakeAccessible(o, l)),
            2 => offset().prop_map(MemOp::Check),
            1 => (-40i64..41).prop_map(MemOp::PtrMove),
            1 => offset().prop_map(MemOp::CheckPtr),
            1 => any::<bool>().prop_map(MemOp::FarExcursion),
        ];
        (crate::bf::width(), 1u8..4, vec(op, 1..80)).prop_map(|(bits, placement, ops)| MemCase { bits, placement, ops }).boxed()
    }
    fn concretize(&self, g: &MemCase) -> MemCase {
        g.clone()
    }
    fn check(&self, c: &MemCase, stats: &mut Stats) -> Outcome {
        let c2 = c.clone();
        verdict::in_child(std::time::Duration::from_secs(10), stats, move || with_cell!(c2.bits, C, run_history::<C>(&c2)))
    }
    fn minimize(&self, c: MemCase, fail: &Fail) -> MemCase {
        let mut c = c;
        let mut scratch = Stats::default();
        let mut i = 0;
        while i < c.ops.len() {
            let mut cand = c.clone();
            cand.ops.remove(i);
            if matches!(self.check(&cand, &mut scratch), Outcome::Fail(f) if f.kind == fail.kind) {
                c = cand
            } else {
                i += 1
            }
        }
        c
    }
    fn fuzz_target(&self) -> Option<&'static str> {
        Some("mem_api")
    }
    fn decode_fuzz(&self, bytes: &[u8]) -> Option<MemCase> {
        let mut c = crate::fuzzdec::mem_case(&mut arbitrary::Unstructured::new(bytes)).ok()?;
        c.placement = 3;
        Some(c)
    }
    fn floors(&self, tier: Tier) -> Vec<(&'static str, u64)> {
        let q = if tier == Tier::Quick { 1 } else { 25 };
        vec![("nontrivial", 15_000 * q), ("grew-below", 15_000 * q), ("grew-above", 15_000 * q), ("one-request-sticking-out-on-both-sides", 2_000 * q), ("far-excursion", 5_000 * q)]
    }
}
