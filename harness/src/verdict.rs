//! "Verdict in child" pattern for properties whose oracle is a model that must
//! run next to the real code (histories against data structures, validators).
use crate::child::{self, Exit};
use crate::engine::{Fail, Outcome};
use std::time::Duration;

/// What the child-side closure returns.
pub struct Info {
    pub nontrivial: bool,
    /// class names to count (comma-free)
    pub classes: Vec<String>,
    pub maxima: Vec<(String, u64)>,
    pub sets: Vec<(String, String)>,
}

impl Info {
    pub fn new(nontrivial: bool) -> Info {
        Info { nontrivial, classes: vec![], maxima: vec![], sets: vec![] }
    }
}

/// Run `f` in a forked child. `Ok(info)` = property held; `Err((kind, detail))` = violation.
pub fn in_child(timeout: Duration, stats: &mut crate::engine::Stats, f: impl FnOnce() -> Result<Info, (String, String)>) -> Outcome {
    let run = child::in_child(timeout, || {
        child::arm_watchdog(timeout.as_millis() as u64);
        match crate::exec::guarded(f) {
            Ok(Ok(info)) => {
                for c in &info.classes {
                    child::log_note(&format!("class={c}"));
                }
                for (k, v) in &info.maxima {
                    child::log_note(&format!("max={k}={v}"));
                }
                for (k, v) in &info.sets {
                    child::log_note(&format!("set={k}={v}"));
                }
                child::log_note(if info.nontrivial { "verdict=ok-nontrivial" } else { "verdict=ok" });
                0
            }
            Ok(Err((kind, detail))) => {
                child::log_note(&format!("failkind={kind}"));
                child::log_note(&format!("verdict=fail:{detail}"));
                0
            }
            Err(msg) => {
                child::log_note(&format!("verdict=panic:{msg}"));
                0
            }
        }
    });
    let verdict = run.note("verdict").map(|s| s.to_string());
    match (verdict, &run.exit) {
        (Some(v), _) if v.starts_with("ok") => {
            for n in &run.notes {
                if let Some(c) = n.strip_prefix("class=") {
                    stats.class(c)
                } else if let Some(m) = n.strip_prefix("max=") {
                    if let Some((k, v)) = m.rsplit_once('=') {
                        stats.max(k, v.parse().unwrap_or(0))
                    }
                } else if let Some(m) = n.strip_prefix("set=") {
                    if let Some((k, v)) = m.split_once('=') {
                        stats.set(k, v)
                    }
                }
            }
            Outcome::Pass { nontrivial: v == "ok-nontrivial" }
        }
        (Some(v), _) if v.starts_with("fail:") => Outcome::Fail(Fail { kind: run.note("failkind").unwrap_or("mismatch").to_string(), detail: v[5..].to_string(), cfg: None }),
        (Some(v), _) if v.starts_with("panic:") => Outcome::Fail(Fail { kind: "panic".into(), detail: v[6..].to_string(), cfg: None }),
        (_, Exit::Signal(s)) => Outcome::Fail(Fail { kind: format!("crash:{}", child::signal_name(*s)), detail: format!("killed by {}", child::signal_name(*s)), cfg: None }),
        (_, Exit::Timeout) => Outcome::Inconclusive("timeout".into()),
        (_, e) => Outcome::Inconclusive(format!("child ended {:?} without a verdict", e)),
    }
}
