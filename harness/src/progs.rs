//! Shared machinery for the properties that run generated programs against the
//! canonical reference (C01-C08, C10, C17).

use crate::bf::{self, Mix, ProgAst};
use crate::child::Obs;
use crate::engine::{ddmin_bytes, ddmin_program, Fail, Outcome, Property, Stats, Tier};
use crate::exec::RunCfg;
use crate::judge::{self, Verdict};
use crate::refmodel::{self, Fate, RefRun};
use proptest::prelude::*;
use serde::{Deserialize, Serialize};

#[derive(Serialize, Deserialize, Clone, Debug)]
pub struct ProgCase {
    pub program: String,
    pub input: Vec<u8>,
    pub bits: u32,
    pub cfgs: Vec<RunCfg>,
    #[serde(default)]
    pub family: String,
}

/// Random selectors a property uses (together with the canonical run) to
/// derive its configurations; plain integers so they shrink.
#[derive(Clone, Debug, Default)]
pub struct Sel {
    pub level: u32,
    pub a: u32,
    pub b: u32,
    pub c: u32,
    pub d: u32,
}

pub fn sel_strategy() -> impl Strategy<Value = Sel> {
    (bf::level_any(), any::<u32>(), any::<u32>(), any::<u32>(), any::<u32>()).prop_map(|(level, a, b, c, d)| Sel { level, a, b, c, d })
}

pub type ProgGen = (ProgAst, Vec<u8>, u32, Sel);

pub trait ProgProperty {
    fn id(&self) -> &'static str;
    fn level(&self) -> &'static str {
        "exploration"
    }
    fn rule(&self) -> String;
    fn assumptions(&self) -> Vec<String>;
    fn cases(&self, tier: Tier) -> u64;
    fn mix(&self, tier: Tier) -> Mix;
    fn max_steps(&self) -> u64 {
        3_000_000
    }
    /// Is the canonical run inside the property's domain?
    fn admit(&self, r: &RefRun) -> Result<(), &'static str> {
        match r.fate {
            Fate::Halt => Ok(()),
            Fate::Diverges => Err("canonical run diverges"),
            Fate::Unknown => Err("canonical run exceeds the step limit"),
        }
    }
    fn make_cfgs(&self, sel: &Sel, program: &str, input: &[u8], bits: u32, r: &RefRun) -> Vec<RunCfg>;
    /// Non-trivial rule; may also record classes.
    fn nontrivial(&self, c: &ProgCase, r: &RefRun, obs: &[Option<Obs>], stats: &mut Stats) -> bool;
    /// Additional property-specific judgement after the generic one passed.
    fn extra_judge(&self, _c: &ProgCase, _r: &RefRun, _obs: &[Option<Obs>]) -> Option<Fail> {
        None
    }
    /// Replace the generic judging completely (C05 part 3, C17).
    fn custom_check(&self, _c: &ProgCase, _r: &RefRun, _stats: &mut Stats) -> Option<Outcome> {
        None
    }
    fn floors(&self, _tier: Tier) -> Vec<(&'static str, u64)> {
        vec![]
    }
    fn fuzz_target(&self) -> Option<&'static str> {
        None
    }
    /// Append the upper-bits probe (`refmodel::probe_epilogue`) to a third of the halting programs at widths 16 and 32 and to two thirds at 64.
    fn probe_upper_bits(&self) -> bool {
        false
    }
    fn input_strategy(&self) -> BoxedStrategy<Vec<u8>> {
        bf::input_bytes()
    }
    fn width_strategy(&self) -> BoxedStrategy<u32> {
        bf::width()
    }
}

pub struct PP<T: ProgProperty>(pub T);

pub fn record_common(c: &ProgCase, r: &RefRun, stats: &mut Stats) {
    stats.class(&format!("family:{}", c.family));
    stats.class(&format!("width:{}", c.bits));
    stats.class(&format!("fate:{:?}", r.fate));
    if r.back_edges > 0 {
        stats.class("loop-body-repeated");
    }
    if r.events.is_empty() {
        stats.class("no-events");
    }
    if r.eof_reads > 0 {
        stats.class("input-exhausted");
    }
    if r.wraps > 0 {
        stats.class("cell-wrapped");
    }
    if r.max_ptr - r.min_ptr > 1000 {
        stats.class("span>1000");
    }
    stats.max("max-canonical-steps", r.steps);
    stats.max("max-events", r.events.len() as u64);
    for cfg in &c.cfgs {
        stats.class(&format!("cfg:{}:O{}", cfg.backend.name(), if cfg.level > 3 { "4+".to_string() } else { cfg.level.to_string() }));
    }
}

impl<T: ProgProperty> PP<T> {
    /// Step limit for the canonical run. Programs that need the full limit are
    /// expensive (and rejected programs cost the whole limit), so only one
    /// program in four - chosen by a hash of its text - gets it.
    fn step_limit(&self, program: &str, family: &str) -> u64 {
        let full = self.0.max_steps();
        if family.ends_with("+probe") || crate::engine::fnv(program) % 4 == 0 || family == "wide" || family == "bigconst" || family == "hibits" || family == "shl" {
            full
        } else {
            (full / 15).max(1000)
        }
    }
    fn check_inner(&self, c: &ProgCase, stats: &mut Stats) -> Outcome {
        if !refmodel::balanced(&c.program) {
            return Outcome::Skip("unbalanced");
        }
        let r = refmodel::run(&c.program, &c.input, c.bits, self.step_limit(&c.program, &c.family));
        if let Err(why) = self.0.admit(&r) {
            stats.class(&format!("skipped:{}:{:?}", c.family, r.fate));
            return Outcome::Skip(why);
        }
        if c.cfgs.is_empty() {
            return Outcome::Skip("no configuration applies");
        }
        if let Some(o) = self.0.custom_check(c, &r, stats) {
            return o;
        }
        let (verdicts, obs) = judge::run_and_judge(&c.program, &c.input, c.bits, &c.cfgs, &r);
        let mut inconclusive = None;
        for (i, v) in verdicts.iter().enumerate() {
            match v {
                Verdict::Ok => {}
                Verdict::Violation(f) => {
                    let cfg = c.cfgs.get(f.cfg).map(|x| x.describe(c.bits)).unwrap_or_default();
                    return Outcome::Fail(Fail { kind: f.kind.clone(), detail: format!("[{}] {}", cfg, f.detail), cfg: Some(f.cfg) });
                }
                Verdict::Inconclusive(w) => inconclusive = Some(format!("cfg {i}: {w}")),
            }
        }
        if let Some(f) = self.0.extra_judge(c, &r, &obs) {
            return Outcome::Fail(f);
        }
        if let Some(w) = inconclusive {
            return Outcome::Inconclusive(w);
        }
        record_common(c, &r, stats);
        let nt = self.0.nontrivial(c, &r, &obs, stats);
        Outcome::Pass { nontrivial: nt }
    }
}

impl<T: ProgProperty> Property for PP<T> {
    type Gen = ProgGen;
    type Case = ProgCase;
    fn id(&self) -> &'static str {
        self.0.id()
    }
    fn level(&self) -> &'static str {
        self.0.level()
    }
    fn rule(&self) -> String {
        self.0.rule()
    }
    fn assumptions(&self) -> Vec<String> {
        let mut v = vec![
            "oracle: harness/src/refmodel.rs, a direct interpreter of canonical Brainfuck semantics (cells mod 2^width, unbounded zero tape, ',' = next byte or 0 at end of input, '.' = low 8 bits)".to_string(),
            format!("only programs whose canonical run is classified within {} steps are explored", self.0.max_steps()),
            "the real code runs in forked children; observation is through logging Read/Write objects handed to Context::new".to_string(),
        ];
        v.extend(self.0.assumptions());
        v
    }
    fn cases(&self, tier: Tier) -> u64 {
        self.0.cases(tier)
    }
    fn strategy(&self, tier: Tier) -> BoxedStrategy<ProgGen> {
        (bf::prog(self.0.mix(tier)), self.0.input_strategy(), self.0.width_strategy(), sel_strategy()).boxed()
    }
    fn concretize(&self, g: &ProgGen) -> ProgCase {
        let mut program = g.0.render();
        let input = g.0.fixed_input().unwrap_or_else(|| g.1.clone());
        let mut r = refmodel::run(&program, &input, g.2, self.step_limit(&program, g.0.family()));
        let mut family = g.0.family().to_string();
        if self.0.probe_upper_bits() && g.2 > 8 && r.fate == refmodel::Fate::Halt && (crate::engine::fnv(&program) % 3 == 1 || (g.2 == 64 && crate::engine::fnv(&program) % 3 == 2)) {
            if let Some(ep) = refmodel::probe_epilogue(&r, g.2) {
                program.push_str(&ep);
                r = refmodel::run(&program, &input, g.2, self.0.max_steps());
                family.push_str("+probe");
            }
        }
        let cfgs = if self.0.admit(&r).is_ok() { self.0.make_cfgs(&g.3, &program, &input, g.2, &r) } else { vec![] };
        ProgCase { program, input, bits: g.2, cfgs, family }
    }
    fn check(&self, c: &ProgCase, stats: &mut Stats) -> Outcome {
        self.check_inner(c, stats)
    }
    fn floors(&self, tier: Tier) -> Vec<(&'static str, u64)> {
        self.0.floors(tier)
    }
    fn fuzz_target(&self) -> Option<&'static str> {
        self.0.fuzz_target()
    }
    fn decode_fuzz(&self, bytes: &[u8]) -> Option<ProgCase> {
        let mut u = arbitrary::Unstructured::new(bytes);
        let p = if self.0.fuzz_target() == Some("prog_jit") { crate::fuzzdec::prog_jit(&mut u).ok()? } else { crate::fuzzdec::prog(&mut u).ok()? };
        self.case_from_text(&p.program, &p.input, p.bits, [0; 5])
    }
    fn case_from_text(&self, program: &str, input: &[u8], bits: u32, sel: [u32; 5]) -> Option<ProgCase> {
        let g = (ProgAst::Text(program.to_string()), input.to_vec(), bits, Sel { level: sel[0], a: sel[1], b: sel[2], c: sel[3], d: sel[4] });
        Some(self.concretize(&g))
    }
    fn minimize(&self, c: ProgCase, fail: &Fail) -> ProgCase {
        let kind = fail.kind.as_str();
        let mut scratch = Stats::default();
        let fails = |c: &ProgCase, scratch: &mut Stats| -> bool { matches!(self.check_inner(c, scratch), Outcome::Fail(f) if f.kind == kind) };
        let mut c = c;
        // keep only one failing configuration
        if c.cfgs.len() > 1 {
            let order: Vec<usize> = fail.cfg.into_iter().filter(|&i| i < c.cfgs.len()).chain(0..c.cfgs.len()).collect();
            for i in order {
                if crate::engine::past_deadline() {
                    break;
                }
                let cand = ProgCase { cfgs: vec![c.cfgs[i]], ..c.clone() };
                if fails(&cand, &mut scratch) {
                    c = cand;
                    break;
                }
            }
        }
        let slow = kind == "hang";
        let mut budget: u32 = if slow { 40 } else { 4000 };
        let prog = ddmin_program(c.program.clone(), &mut budget, &mut |cand| {
            let cc = ProgCase { program: cand.to_string(), ..c.clone() };
            fails(&cc, &mut scratch)
        });
        c.program = prog;
        let mut budget: u32 = if slow { 10 } else { 200 };
        let input = ddmin_bytes(c.input.clone(), &mut budget, &mut |cand| {
            let cc = ProgCase { input: cand.to_vec(), ..c.clone() };
            fails(&cc, &mut scratch)
        });
        c.input = input;
        // smaller width / lower level if the failure survives
        if !slow && !c.cfgs.is_empty() {
            for bits in [8u32, 16, 32] {
                if bits < c.bits {
                    let cc = ProgCase { bits, ..c.clone() };
                    if fails(&cc, &mut scratch) {
                        c = cc;
                        break;
                    }
                }
            }
            let lvl = c.cfgs[0].level;
            for l in 0..lvl.min(4) {
                let mut cc = c.clone();
                cc.cfgs[0].level = l;
                if fails(&cc, &mut scratch) {
                    c = cc;
                    break;
                }
            }
        }
        c
    }
}
