//! In-process execution of the memory-safe-by-construction back ends, for the
//! libFuzzer targets (no fork per execution there). Only `execute_limited`
//! is used, with a budget derived from the canonical step count, so that a
//! finite loop turned infinite shows up as "not finished" instead of a hang.

use crate::exec::Backend;
use crate::props::c13::run_once;
use crate::refmodel::{self, Ev, Fate};
use crate::with_cell;
use hpbf::exec::{BaseJitCompiler, BcInterpreter, Executor, IrInterpreter};

pub fn run_limited(backend: Backend, code: &str, input: &[u8], bits: u32, level: u32, budget: usize) -> Result<(Vec<Ev>, Option<bool>), String> {
    with_cell!(bits, C, {
        match backend {
            Backend::Ir => Ok(run_once::<C, _>(&IrInterpreter::<C>::create(code, level).map_err(|e| format!("{:?}", e.kind))?, input, Some(budget))),
            Backend::Bc => Ok(run_once::<C, _>(&BcInterpreter::<C>::create(code, level).map_err(|e| format!("{:?}", e.kind))?, input, Some(budget))),
            // limited + bounds-checked machine code; a code generation fault that escapes both
            // kills the fuzzer process, which libFuzzer saves as a crash input like any other
            Backend::Jit => Ok(run_once::<C, _>(&BaseJitCompiler::<C>::create(code, level).map_err(|e| format!("{:?}", e.kind))?, input, Some(budget))),
            _ => Err("backend not run in-process".into()),
        }
    })
}

/// The oracle of the program targets: canonical run (short step limit), then
/// the back end at levels 0..3 with a generous budget. Returns a description
/// of the first violation.
pub fn check_program(backend: Backend, code: &str, input: &[u8], bits: u32) -> Option<String> {
    check_program_steps(backend, code, input, bits, 20_000)
}

pub fn check_program_steps(backend: Backend, code: &str, input: &[u8], bits: u32, step_limit: u64) -> Option<String> {
    let r = refmodel::run(code, input, bits, step_limit);
    if r.fate != Fate::Halt {
        return None;
    }
    // the budget counts loop passes (at most one per canonical step)
    let budget = (r.steps as usize) * 4 + 10_000;
    for level in 0..4 {
        match run_limited(backend, code, input, bits, level, budget) {
            Ok((ev, fin)) => {
                if fin != Some(true) {
                    return Some(format!("{backend:?} -O{level} i{bits}: not finished with budget {budget} although the canonical run halts after {} steps", r.steps));
                }
                if ev != r.events {
                    let i = ev.iter().zip(r.events.iter()).position(|(a, b)| a != b).unwrap_or(ev.len().min(r.events.len()));
                    return Some(format!("{backend:?} -O{level} i{bits}: events differ from the canonical sequence at event {i} ({} vs {} events)", ev.len(), r.events.len()));
                }
            }
            Err(e) => return Some(format!("{backend:?} -O{level}: create failed: {e}")),
        }
    }
    None
}
