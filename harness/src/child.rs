//! Process isolation. The tested code contains a JIT, raw-pointer interpreters
//! and deliberate non-termination, so it never runs in the process that holds
//! the generator state: every case is executed in a forked child. The child
//! writes what it observes into a shared-memory record stream which the parent
//! can still read after the child crashed or was killed.
//!
//! The runner process is single-threaded, so `fork` without `exec` is safe.

use crate::refmodel::Ev;
use std::sync::atomic::{AtomicUsize, Ordering};
use std::time::{Duration, Instant};

const SHM_SIZE: usize = 8 << 20;

/// Shared record stream. Layout: [len: usize][bytes...].
pub struct Shm {
    base: *mut u8,
}

const R_BEGIN: u8 = 1; // + u16 config index
const R_IN: u8 = 2;
const R_OUT: u8 = 3; // + byte
const R_END: u8 = 4; // + byte: 0 = returned unit, 1 = finished false, 2 = finished true
const R_NOTE: u8 = 5; // + u32 len + bytes
const R_PANIC: u8 = 6; // + u32 len + bytes

pub const EXIT_LOG_FULL: i32 = 97;
pub const EXIT_TOO_MANY_EVENTS: i32 = 98;

static mut SHM: Shm = Shm { base: std::ptr::null_mut() };
/// Child-side cap on the number of events of the current config (derived from
/// the canonical event count; exceeding it already is a mismatch).
pub static EVENT_CAP: AtomicUsize = AtomicUsize::new(usize::MAX);
static EVENTS_IN_CFG: AtomicUsize = AtomicUsize::new(0);

pub fn init() {
    unsafe {
        let p = libc::mmap(
            std::ptr::null_mut(),
            SHM_SIZE,
            libc::PROT_READ | libc::PROT_WRITE,
            libc::MAP_SHARED | libc::MAP_ANONYMOUS,
            -1,
            0,
        );
        assert!(p as isize != -1, "mmap shared log failed");
        SHM.base = p as *mut u8;
    }
}

fn shm() -> &'static Shm {
    unsafe {
        let s = &*std::ptr::addr_of!(SHM);
        assert!(!s.base.is_null(), "child::init() not called");
        s
    }
}

impl Shm {
    fn len_ref(&self) -> &AtomicUsize {
        unsafe { &*(self.base as *const AtomicUsize) }
    }
    fn reset(&self) {
        self.len_ref().store(0, Ordering::SeqCst);
    }
    fn push(&self, bytes: &[u8]) {
        let len = self.len_ref().load(Ordering::Relaxed);
        if len + bytes.len() + 64 > SHM_SIZE - 16 {
            unsafe { libc::_exit(EXIT_LOG_FULL) }
        }
        unsafe {
            std::ptr::copy_nonoverlapping(bytes.as_ptr(), self.base.add(16 + len), bytes.len());
        }
        self.len_ref().store(len + bytes.len(), Ordering::SeqCst);
    }
    fn data(&self) -> Vec<u8> {
        let len = self.len_ref().load(Ordering::SeqCst).min(SHM_SIZE - 16);
        unsafe { std::slice::from_raw_parts(self.base.add(16), len).to_vec() }
    }
}

// ---- child-side API ----

pub fn log_begin(cfg: usize) {
    EVENTS_IN_CFG.store(0, Ordering::Relaxed);
    shm().push(&[R_BEGIN, (cfg & 0xff) as u8, (cfg >> 8) as u8]);
}
fn count_event() {
    let n = EVENTS_IN_CFG.fetch_add(1, Ordering::Relaxed);
    if n >= EVENT_CAP.load(Ordering::Relaxed) {
        unsafe { libc::_exit(EXIT_TOO_MANY_EVENTS) }
    }
}
pub fn log_in() {
    shm().push(&[R_IN]);
    count_event();
}
pub fn log_out(b: u8) {
    shm().push(&[R_OUT, b]);
    count_event();
}
pub fn log_end(fin: Option<bool>) {
    shm().push(&[R_END, match fin { None => 0, Some(false) => 1, Some(true) => 2 }]);
}
/// Allocation-free (may be called from inside the allocator).
pub fn log_note(s: &str) {
    let sh = shm();
    let len = sh.len_ref().load(Ordering::Relaxed);
    if len + s.len() + 64 > SHM_SIZE - 16 {
        unsafe { libc::_exit(EXIT_LOG_FULL) }
    }
    let mut hdr = [R_NOTE, 0, 0, 0, 0];
    hdr[1..5].copy_from_slice(&(s.len() as u32).to_le_bytes());
    unsafe {
        std::ptr::copy_nonoverlapping(hdr.as_ptr(), sh.base.add(16 + len), 5);
        std::ptr::copy_nonoverlapping(s.as_ptr(), sh.base.add(16 + len + 5), s.len());
    }
    sh.len_ref().store(len + 5 + s.len(), Ordering::SeqCst);
}
pub fn log_panic(s: &str) {
    let mut v = vec![R_PANIC];
    v.extend_from_slice(&(s.len() as u32).to_le_bytes());
    v.extend_from_slice(s.as_bytes());
    shm().push(&v);
}

// ---- parent-side ----

#[derive(Clone, Debug, PartialEq)]
pub enum End {
    /// The call returned; `Some(b)` for execute_limited.
    Returned(Option<bool>),
    Panicked(String),
    /// The child died / was killed while this config was running.
    Cut,
}

#[derive(Clone, Debug)]
pub struct Obs {
    pub cfg: usize,
    pub events: Vec<Ev>,
    pub end: End,
    pub notes: Vec<String>,
}

#[derive(Clone, Debug, PartialEq)]
pub enum Exit {
    Code(i32),
    Signal(i32),
    Timeout,
}

#[derive(Clone, Debug)]
pub struct ChildRun {
    pub exit: Exit,
    pub obs: Vec<Obs>,
    /// Notes written outside of any config.
    pub notes: Vec<String>,
    pub wall: Duration,
}

impl ChildRun {
    pub fn note(&self, key: &str) -> Option<&str> {
        self.notes.iter().find_map(|n| n.strip_prefix(key).and_then(|r| r.strip_prefix('=')))
    }
}

impl Obs {
    pub fn note(&self, key: &str) -> Option<&str> {
        self.notes.iter().find_map(|n| n.strip_prefix(key).and_then(|r| r.strip_prefix('=')))
    }
}

fn parse(data: &[u8]) -> (Vec<Obs>, Vec<String>) {
    let mut obs: Vec<Obs> = vec![];
    let mut notes = vec![];
    let mut open = false;
    let mut i = 0;
    while i < data.len() {
        match data[i] {
            R_BEGIN => {
                if i + 2 >= data.len() { break }
                let cfg = data[i + 1] as usize | (data[i + 2] as usize) << 8;
                obs.push(Obs { cfg, events: vec![], end: End::Cut, notes: vec![] });
                open = true;
                i += 3;
            }
            R_IN => {
                if let Some(o) = obs.last_mut() { o.events.push(Ev::In) }
                i += 1;
            }
            R_OUT => {
                if i + 1 >= data.len() { break }
                if let Some(o) = obs.last_mut() { o.events.push(Ev::Out(data[i + 1])) }
                i += 2;
            }
            R_END => {
                if i + 1 >= data.len() { break }
                if let Some(o) = obs.last_mut() {
                    o.end = End::Returned(match data[i + 1] { 0 => None, 1 => Some(false), _ => Some(true) });
                }
                open = false;
                i += 2;
            }
            k @ (R_NOTE | R_PANIC) => {
                if i + 5 > data.len() { break }
                let len = u32::from_le_bytes([data[i + 1], data[i + 2], data[i + 3], data[i + 4]]) as usize;
                if i + 5 + len > data.len() { break }
                let s = String::from_utf8_lossy(&data[i + 5..i + 5 + len]).to_string();
                if k == R_PANIC {
                    if let Some(o) = obs.last_mut() { o.end = End::Panicked(s) }
                    open = false;
                } else if open {
                    obs.last_mut().unwrap().notes.push(s)
                } else {
                    notes.push(s)
                }
                i += 5 + len;
            }
            _ => break,
        }
    }
    (obs, notes)
}

/// Fork, run `f` in the child (which `_exit`s with f's return code), wait at
/// most `timeout`, then return everything the child logged.
pub fn in_child<F: FnOnce() -> i32>(timeout: Duration, f: F) -> ChildRun {
    let s = shm();
    s.reset();
    let start = Instant::now();
    unsafe {
        let mut fds = [0i32; 2];
        assert!(libc::pipe(fds.as_mut_ptr()) == 0, "pipe failed");
        let pid = libc::fork();
        assert!(pid >= 0, "fork failed");
        if pid == 0 {
            libc::close(fds[0]);
            // Die with the runner.
            libc::prctl(libc::PR_SET_PDEATHSIG, libc::SIGKILL);
            let code = match std::panic::catch_unwind(std::panic::AssertUnwindSafe(f)) {
                Ok(c) => c,
                Err(_) => 96,
            };
            #[cfg(feature = "cov")]
            {
                extern "C" {
                    fn __llvm_profile_write_file() -> i32;
                }
                __llvm_profile_write_file();
            }
            libc::_exit(code);
        }
        libc::close(fds[1]);
        let mut pfd = libc::pollfd { fd: fds[0], events: libc::POLLIN, revents: 0 };
        let mut exit = Exit::Timeout;
        let ms = timeout.as_millis().min(i32::MAX as u128) as i32;
        let deadline = start + timeout;
        loop {
            let left = deadline.saturating_duration_since(Instant::now()).as_millis() as i32;
            let r = libc::poll(&mut pfd, 1, left.min(ms).max(0));
            if r < 0 {
                let e = *libc::__errno_location();
                if e == libc::EINTR { continue }
            }
            if r == 0 && Instant::now() < deadline { continue }
            break;
        }
        let mut status = 0;
        let hung = pfd.revents == 0;
        if hung {
            libc::kill(pid, libc::SIGKILL);
        }
        libc::waitpid(pid, &mut status, 0);
        libc::close(fds[0]);
        if !hung {
            if libc::WIFEXITED(status) {
                exit = Exit::Code(libc::WEXITSTATUS(status));
            } else if libc::WIFSIGNALED(status) {
                // SIGALRM is the child's own per-configuration watchdog (arm_watchdog)
                exit = if libc::WTERMSIG(status) == libc::SIGALRM { Exit::Timeout } else { Exit::Signal(libc::WTERMSIG(status)) };
            }
        }
        let (obs, notes) = parse(&s.data());
        ChildRun { exit, obs, notes, wall: start.elapsed() }
    }
}

/// Child-side: (re)arm the per-configuration watchdog; the default action of
/// SIGALRM ends the process, which the parent reports as a timeout.
pub fn arm_watchdog(ms: u64) {
    unsafe {
        let it = libc::itimerval { it_interval: libc::timeval { tv_sec: 0, tv_usec: 0 }, it_value: libc::timeval { tv_sec: (ms / 1000) as libc::time_t, tv_usec: ((ms % 1000) * 1000) as libc::suseconds_t } };
        libc::signal(libc::SIGALRM, libc::SIG_DFL);
        libc::setitimer(libc::ITIMER_REAL, &it, std::ptr::null_mut());
    }
}

pub fn signal_name(sig: i32) -> &'static str {
    match sig {
        libc::SIGSEGV => "SIGSEGV",
        libc::SIGBUS => "SIGBUS",
        libc::SIGABRT => "SIGABRT",
        libc::SIGILL => "SIGILL",
        libc::SIGFPE => "SIGFPE",
        libc::SIGKILL => "SIGKILL",
        libc::SIGTRAP => "SIGTRAP",
        _ => "signal",
    }
}
