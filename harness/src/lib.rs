//! hpbf-verif: property-based testing and fuzzing machinery for rolandbernard/hpbf.
//! The binary `hv` (src/main.rs) drives it; the cargo-fuzz package in /verif/fuzz reuses
//! the generators' rendering code and the oracles.

pub mod bcvalid;
pub mod bf;
pub mod child;
pub mod engine;
pub mod exec;
pub mod fuzzdec;
pub mod galloc;
pub mod inproc;
pub mod judge;
pub mod progs;
pub mod props;
pub mod refmodel;
pub mod verdict;

/// Tier of the current run (a few generators enumerate more in the thorough tier).
pub static TIER_THOROUGH: std::sync::atomic::AtomicBool = std::sync::atomic::AtomicBool::new(false);
