#!/bin/bash
# Run the checks that should catch a seeded change against /repo ITSELF:
#   git -C /repo apply seeded/<n>/patch.diff ; ./check <ID> ; git -C /repo checkout -- .
# Evidence and findings of these runs go to a scratch directory (VERIF_DIR), not to /verif/evidence.
#   tools/run-seeded.sh <n> [<n>...]     (default: all)
cd "$(dirname "$0")/.."
[ $# -eq 0 ] && set -- $(cd seeded && ls -d */ | tr -d /)
if ! git -C /repo diff --quiet; then echo "/repo has uncommitted changes; refusing"; exit 2; fi
for N in "$@"; do
  IDS=$(python3 -c "import json;print(' '.join(json.load(open('seeded/$N/meta.json'))['caught_by']))")
  OUT=/tmp/seedrun/$N; rm -rf "$OUT"; mkdir -p "$OUT"; ln -s /verif/corpus "$OUT/corpus"; cp known_findings.txt "$OUT/"
  git -C /repo apply "$PWD/seeded/$N/patch.diff" || { echo "SEEDED $N: patch does not apply"; continue; }
  for ID in $IDS; do
    S=$(date +%s); VERIF_DIR="$OUT" ./check "$ID" --tier quick > "$OUT/$ID.log" 2>&1; RC=$?; E=$(date +%s)
    echo "SEEDED $N check=$ID exit=$RC violations=$(grep -c '^VIOLATION' "$OUT/$ID.log") time=$((E-S))s  $(grep -A1 '^VIOLATION' "$OUT/$ID.log" | sed -n 2p | cut -c1-160)"
  done
  git -C /repo checkout -- .
done
# leave the harness built against the unchanged tree again
( cd harness && cargo build --quiet --release 2>/dev/null; cargo build --quiet --profile dbgassert 2>/dev/null )
rm -rf /tmp/seedrun
